package console

// Demonstration for property C19 (console drivers paint exactly the addressed
// cells, never outside the framebuffer).
//
// Copy to kernel/device/video/console/c19_keep3_demo_test.go and run with:
//   cd kernel && go test -vet=off -count=1 -run TestC19Keep3Demo ./device/video/console/
//
// The test drives both console drivers through their public driver entry
// points (probe, DriverInit, SetLogo, SetFont, Write, Fill, Scroll) and
// compares the framebuffer against an independent model that is written from
// the wording of the property. It only looks at the framebuffer bytes, the
// padding bytes and guard areas around the framebuffer. It deliberately does
// not look at log output, port writes, mapping flags or any internal value.

import (
	"bytes"
	"image/color"
	"runtime"
	"testing"
	"unsafe"

	"github.com/ProjectSerenity/firefly/kernel"
	"github.com/ProjectSerenity/firefly/kernel/device/video/console/font"
	"github.com/ProjectSerenity/firefly/kernel/device/video/console/logo"
	"github.com/ProjectSerenity/firefly/kernel/mm"
	"github.com/ProjectSerenity/firefly/kernel/mm/vmm"
	"github.com/ProjectSerenity/firefly/kernel/multiboot"
)

const c19Sentinel = 0xEE

// c19Rand is a small deterministic PRNG (xorshift32).
type c19Rand uint32

func (r *c19Rand) next() uint32 {
	x := uint32(*r)
	x ^= x << 13
	x ^= x >> 17
	x ^= x << 5
	*r = c19Rand(x)
	return x
}

func (r *c19Rand) upTo(n uint32) uint32 { return r.next() % n }

// c19Arena is a page aligned piece of ordinary Go memory that plays the role
// of the physical framebuffer. One guard page precedes the framebuffer and at
// least one guard page follows it.
type c19Arena struct {
	backing []byte
	base    uintptr // page aligned address of the first guard page
	fbSize  uintptr
	total   uintptr
}

func newC19Arena(fbSize uintptr) *c19Arena {
	fbPages := (fbSize + mm.PageSize - 1) / mm.PageSize
	total := (fbPages + 2) * mm.PageSize
	a := &c19Arena{backing: make([]byte, total+mm.PageSize), fbSize: fbSize, total: total}
	addr := uintptr(unsafe.Pointer(&a.backing[0]))
	a.base = (addr + mm.PageSize - 1) &^ (mm.PageSize - 1)
	for i := range a.backing {
		a.backing[i] = c19Sentinel
	}
	return a
}

// fbPage returns the page where the framebuffer begins.
func (a *c19Arena) fbPage() mm.Page {
	return mm.PageFromAddress(a.base + mm.PageSize)
}

// outside returns the bytes of the arena that are not part of the framebuffer.
func (a *c19Arena) outside() (before, after []byte) {
	start := a.base - uintptr(unsafe.Pointer(&a.backing[0]))
	before = a.backing[:start+mm.PageSize]
	after = a.backing[start+mm.PageSize+a.fbSize:]
	return before, after
}

func (a *c19Arena) checkOutside(t *testing.T, what string) {
	t.Helper()
	before, after := a.outside()
	for i, b := range before {
		if b != c19Sentinel {
			t.Fatalf("%s: byte %d before the framebuffer was modified", what, len(before)-i)
		}
	}
	for i, b := range after {
		if b != c19Sentinel {
			t.Fatalf("%s: byte %d after the end of the framebuffer was modified", what, i)
		}
	}
}

func c19MockFont(name string, gw, gh uint32, seed uint32) *font.Font {
	bpr := (gw + 7) / 8
	f := &font.Font{
		Name:        name,
		GlyphWidth:  gw,
		GlyphHeight: gh,
		BytesPerRow: bpr,
		Data:        make([]byte, 256*bpr*gh),
	}
	r := c19Rand(seed)
	for i := range f.Data {
		f.Data[i] = byte(r.next() >> 7)
	}
	return f
}

// c19FbModel is the independent model of a framebuffer console.
type c19FbModel struct {
	width, height, pitch, bpp uint32
	logoH                     uint32
	font                      *font.Font
	ci                        *multiboot.FramebufferRGBColorInfo
	pal                       color.Palette
	fb                        []byte
}

func (m *c19FbModel) bytesPerPixel() uint32 {
	switch m.bpp {
	case 8:
		return 1
	case 15, 16:
		return 2
	case 24:
		return 3
	default:
		return 4
	}
}

func (m *c19FbModel) cols() uint32 { return m.width / m.font.GlyphWidth }
func (m *c19FbModel) rows() uint32 { return (m.height - m.logoH) / m.font.GlyphHeight }

// pack returns the bytes that the driver stores for a pixel of the given
// palette color.
func (m *c19FbModel) pack(c uint8) []byte {
	if m.bpp == 8 {
		return []byte{c}
	}
	rgba := m.pal[c].(color.RGBA)
	v := uint32(rgba.R>>(8-m.ci.RedMaskSize))<<m.ci.RedPosition |
		uint32(rgba.G>>(8-m.ci.GreenMaskSize))<<m.ci.GreenPosition |
		uint32(rgba.B>>(8-m.ci.BlueMaskSize))<<m.ci.BluePosition
	if m.bpp <= 16 {
		return []byte{byte(v), byte(v >> 8)}
	}
	return []byte{byte(v), byte(v >> 8), byte(v >> 16)}
}

func (m *c19FbModel) setPixel(px, py uint32, comp []byte) {
	off := py*m.pitch + px*m.bytesPerPixel()
	copy(m.fb[off:], comp)
}

func (m *c19FbModel) write(ch byte, fg, bg uint8, x, y uint32) {
	if x < 1 || y < 1 || x > m.cols() || y > m.rows() {
		return
	}
	f := m.font
	fgC, bgC := m.pack(fg), m.pack(bg)
	for r := uint32(0); r < f.GlyphHeight; r++ {
		for c := uint32(0); c < f.GlyphWidth; c++ {
			bits := f.Data[(uint32(ch)*f.GlyphHeight+r)*f.BytesPerRow+c/8]
			comp := bgC
			if bits&(0x80>>(c%8)) != 0 {
				comp = fgC
			}
			m.setPixel((x-1)*f.GlyphWidth+c, m.logoH+(y-1)*f.GlyphHeight+r, comp)
		}
	}
}

func c19Clip(x, y, w, h, cols, rows uint32) (uint32, uint32, uint32, uint32) {
	if x == 0 {
		x = 1
	}
	if x > cols {
		x = cols
	}
	if y == 0 {
		y = 1
	}
	if y > rows {
		y = rows
	}
	if w > cols-x+1 {
		w = cols - x + 1
	}
	if h > rows-y+1 {
		h = rows - y + 1
	}
	return x, y, w, h
}

func (m *c19FbModel) fill(x, y, w, h uint32, bg uint8) {
	x, y, w, h = c19Clip(x, y, w, h, m.cols(), m.rows())
	f := m.font
	comp := m.pack(bg)
	for cy := y; cy < y+h; cy++ {
		for cx := x; cx < x+w; cx++ {
			for r := uint32(0); r < f.GlyphHeight; r++ {
				for c := uint32(0); c < f.GlyphWidth; c++ {
					m.setPixel((cx-1)*f.GlyphWidth+c, m.logoH+(cy-1)*f.GlyphHeight+r, comp)
				}
			}
		}
	}
}

func (m *c19FbModel) scroll(dir ScrollDir, lines uint32) {
	if lines < 1 || lines > m.rows() {
		return
	}
	old := append([]byte(nil), m.fb...)
	rowBytes := m.width * m.bytesPerPixel()
	delta := lines * m.font.GlyphHeight
	switch dir {
	case ScrollDirUp:
		for r := m.logoH; r+delta < m.height; r++ {
			copy(m.fb[r*m.pitch:r*m.pitch+rowBytes], old[(r+delta)*m.pitch:])
		}
	case ScrollDirDown:
		for r := m.logoH + delta; r < m.height; r++ {
			copy(m.fb[r*m.pitch:r*m.pitch+rowBytes], old[(r-delta)*m.pitch:])
		}
	}
}

// c19Coord returns an interesting coordinate/extent for a grid with n cells.
func c19Coord(r *c19Rand, n uint32) uint32 {
	switch r.upTo(10) {
	case 0:
		return 0
	case 1:
		return n
	case 2:
		return n + 1
	case 3:
		return 0xFFFFFFFF
	case 4:
		return 0x80000000 + r.upTo(4)
	case 5:
		return r.next()
	default:
		return 1 + r.upTo(n)
	}
}

type c19Hooks struct {
	mapRegion func(mm.Frame, uintptr, vmm.PageTableEntryFlag) (mm.Page, *kernel.Error)
	portWrite func(uint16, uint8)
	fbInfo    func() *multiboot.FramebufferInfo
}

func c19SaveHooks() c19Hooks {
	return c19Hooks{mapRegionFn, portWriteByteFn, getFramebufferInfoFn}
}

func (h c19Hooks) restore() {
	mapRegionFn, portWriteByteFn, getFramebufferInfoFn = h.mapRegion, h.portWrite, h.fbInfo
}

func TestC19Keep3Demo(t *testing.T) {
	defer c19SaveHooks().restore()
	portWriteByteFn = func(uint16, uint8) {}

	rgb565 := &multiboot.FramebufferRGBColorInfo{RedPosition: 11, RedMaskSize: 5, GreenPosition: 5, GreenMaskSize: 6, BluePosition: 0, BlueMaskSize: 5}
	bgr555 := &multiboot.FramebufferRGBColorInfo{RedPosition: 0, RedMaskSize: 5, GreenPosition: 5, GreenMaskSize: 5, BluePosition: 10, BlueMaskSize: 5}
	rgb888 := &multiboot.FramebufferRGBColorInfo{RedPosition: 16, RedMaskSize: 8, GreenPosition: 8, GreenMaskSize: 8, BluePosition: 0, BlueMaskSize: 8}
	bgr888 := &multiboot.FramebufferRGBColorInfo{RedPosition: 0, RedMaskSize: 8, GreenPosition: 8, GreenMaskSize: 8, BluePosition: 16, BlueMaskSize: 8}

	font8x10 := c19MockFont("c19-8x10", 8, 10, 11)
	font10x14 := c19MockFont("c19-10x14", 10, 14, 22)
	font16x8 := c19MockFont("c19-16x8", 16, 8, 33)
	realFont := font.FindByName("terminus8x16")
	if realFont == nil {
		t.Fatal("terminus8x16 is not registered")
	}

	specs := []struct {
		name             string
		w, h, pitch      uint32
		bpp              uint8
		ci               *multiboot.FramebufferRGBColorInfo
		font             *font.Font
		logoH            uint32
		viaProbe         bool
		expCols, expRows uint32
	}{
		{"8bpp-probe", 40, 50, 45, 8, nil, font8x10, 6, true, 5, 4},
		{"8bpp-terminus", 43, 70, 43, 8, nil, realFont, 3, false, 5, 4},
		{"15bpp", 37, 47, 37*2 + 3, 15, bgr555, font10x14, 0, false, 3, 3},
		{"16bpp", 64, 40, 128, 16, rgb565, font16x8, 8, false, 4, 4},
		{"24bpp", 33, 45, 33*3 + 7, 24, bgr888, font8x10, 5, false, 4, 4},
		{"32bpp", 50, 61, 50*4 + 4, 32, rgb888, font10x14, 5, false, 5, 4},
	}

	for _, spec := range specs {
		spec := spec
		t.Run("vesa/"+spec.name, func(t *testing.T) {
			arena := newC19Arena(uintptr(spec.h * spec.pitch))
			defer runtime.KeepAlive(arena)
			mapRegionFn = func(_ mm.Frame, _ uintptr, _ vmm.PageTableEntryFlag) (mm.Page, *kernel.Error) {
				return arena.fbPage(), nil
			}

			var cons *VesaFbConsole
			if spec.viaProbe {
				getFramebufferInfoFn = func() *multiboot.FramebufferInfo {
					return &multiboot.FramebufferInfo{
						Width: spec.w, Height: spec.h, Pitch: spec.pitch, Bpp: spec.bpp,
						PhysAddr: 0xa0000, Type: multiboot.FramebufferTypeIndexed,
					}
				}
				drv := probeForVesaFbConsole()
				if drv == nil {
					t.Fatal("probe did not return a driver for a valid framebuffer")
				}
				cons = drv.(*VesaFbConsole)
			} else {
				cons = NewVesaFbConsole(spec.w, spec.h, spec.bpp, spec.pitch, spec.ci, 0xe0000000)
			}

			if err := cons.DriverInit(nil); err != nil {
				t.Fatal(err)
			}
			arena.checkOutside(t, "DriverInit")
			if got := uintptr(len(cons.fb)); got != arena.fbSize {
				t.Fatalf("framebuffer is %d bytes; want %d", got, arena.fbSize)
			}
			for i, b := range cons.fb {
				if b != c19Sentinel {
					t.Fatalf("DriverInit modified framebuffer byte %d", i)
				}
			}

			// Give the palette entries above the EGA colors a value
			// and put a random picture in the pixels (not in the
			// padding bytes, which keep the sentinel value).
			r := c19Rand(0xC19 + uint32(spec.bpp))
			for i := 16; i < len(cons.palette); i++ {
				v := r.next()
				cons.palette[i] = color.RGBA{R: uint8(v), G: uint8(v >> 8), B: uint8(v >> 16)}
			}
			model := &c19FbModel{
				width: spec.w, height: spec.h, pitch: spec.pitch, bpp: uint32(spec.bpp),
				logoH: spec.logoH, font: spec.font, ci: spec.ci,
			}
			rowBytes := spec.w * model.bytesPerPixel()
			for y := uint32(0); y < spec.h; y++ {
				for i := uint32(0); i < rowBytes; i++ {
					cons.fb[y*spec.pitch+i] = byte(r.next() >> 3)
				}
			}

			if spec.logoH != 0 {
				cons.SetLogo(&logo.Image{
					Width: 2, Height: spec.logoH, Align: logo.AlignLeft,
					Palette: []color.RGBA{{R: 1, G: 2, B: 3}, {R: 200, G: 100, B: 50}},
					Data:    make([]uint8, 2*spec.logoH),
				})
			}
			cons.SetFont(spec.font)

			if cols, rows := cons.Dimensions(Characters); cols != spec.expCols || rows != spec.expRows {
				t.Fatalf("grid is %dx%d; want %dx%d", cols, rows, spec.expCols, spec.expRows)
			}
			if pw, ph := cons.Dimensions(Pixels); pw != spec.w || ph != spec.h {
				t.Fatalf("pixel dimensions are %dx%d; want %dx%d", pw, ph, spec.w, spec.h)
			}

			model.pal = cons.Palette()
			model.fb = append([]byte(nil), cons.fb...)
			if model.cols() != spec.expCols || model.rows() != spec.expRows {
				t.Fatal("bad spec")
			}

			check := func(what string, args ...uint32) {
				t.Helper()
				arena.checkOutside(t, what)
				if !bytes.Equal(model.fb, cons.fb) {
					for i := range model.fb {
						if model.fb[i] != cons.fb[i] {
							t.Fatalf("%s%v: framebuffer byte %d (pixel row %d, byte %d in row) is 0x%x; want 0x%x",
								what, args, i, uint32(i)/spec.pitch, uint32(i)%spec.pitch, cons.fb[i], model.fb[i])
						}
					}
				}
				for y := uint32(0); y < spec.h; y++ {
					for i := y*spec.pitch + rowBytes; i < (y+1)*spec.pitch; i++ {
						if cons.fb[i] != c19Sentinel {
							t.Fatalf("%s%v: padding byte %d was modified", what, args, i)
						}
					}
				}
			}

			cols, rows := model.cols(), model.rows()

			// every cell once, then some out of grid coordinates
			for y := uint32(1); y <= rows; y++ {
				for x := uint32(1); x <= cols; x++ {
					ch, fg, bg := byte(r.next()), uint8(r.next()), uint8(r.next())
					cons.Write(ch, fg, bg, x, y)
					model.write(ch, fg, bg, x, y)
					check("Write", uint32(ch), uint32(fg), uint32(bg), x, y)
				}
			}
			for _, xy := range [][2]uint32{{0, 1}, {1, 0}, {0, 0}, {cols + 1, 1}, {1, rows + 1}, {0xFFFFFFFF, 1}, {1, 0xFFFFFFFF}, {0x80000001, 0x80000001}} {
				cons.Write('A', 3, 4, xy[0], xy[1])
				check("Write outside", xy[0], xy[1])
			}

			// a random mix of operations with ordinary and extreme arguments
			for i := 0; i < 400; i++ {
				switch r.upTo(4) {
				case 0:
					ch, fg, bg := byte(r.next()), uint8(r.next()), uint8(r.next())
					x, y := c19Coord(&r, cols), c19Coord(&r, rows)
					cons.Write(ch, fg, bg, x, y)
					model.write(ch, fg, bg, x, y)
					check("Write", uint32(ch), uint32(fg), uint32(bg), x, y)
				case 1, 2:
					x, y := c19Coord(&r, cols), c19Coord(&r, rows)
					w, h := c19Coord(&r, cols), c19Coord(&r, rows)
					fg, bg := uint8(r.next()), uint8(r.next())
					cons.Fill(x, y, w, h, fg, bg)
					model.fill(x, y, w, h, bg)
					check("Fill", x, y, w, h, uint32(bg))
				case 3:
					dir := ScrollDir(r.upTo(2))
					lines := c19Coord(&r, rows)
					cons.Scroll(dir, lines)
					model.scroll(dir, lines)
					check("Scroll", uint32(dir), lines)
				}
			}

			// every valid and a few invalid line counts, in both directions
			for _, dir := range []ScrollDir{ScrollDirUp, ScrollDirDown} {
				for lines := uint32(0); lines <= rows+2; lines++ {
					cons.Scroll(dir, lines)
					model.scroll(dir, lines)
					check("Scroll", uint32(dir), lines)
					cons.Write(byte(lines), 9, 12, 1+lines%cols, 1+lines%rows)
					model.write(byte(lines), 9, 12, 1+lines%cols, 1+lines%rows)
				}
				cons.Scroll(dir, 0xFFFFFFFF)
				check("Scroll", uint32(dir), 0xFFFFFFFF)
			}
		})
	}

	t.Run("vga-text", func(t *testing.T) {
		const cols, rows = 17, 9
		arena := newC19Arena(cols * rows * 2)
		defer runtime.KeepAlive(arena)
		mapRegionFn = func(_ mm.Frame, _ uintptr, _ vmm.PageTableEntryFlag) (mm.Page, *kernel.Error) {
			return arena.fbPage(), nil
		}
		getFramebufferInfoFn = func() *multiboot.FramebufferInfo {
			return &multiboot.FramebufferInfo{
				Width: cols, Height: rows, Pitch: cols * 2, PhysAddr: 0xb8000,
				Type: multiboot.FramebufferTypeEGA,
			}
		}

		drv := probeForVgaTextConsole()
		if drv == nil {
			t.Fatal("probe did not return a driver for a valid text framebuffer")
		}
		cons := drv.(*VgaTextConsole)
		if err := cons.DriverInit(nil); err != nil {
			t.Fatal(err)
		}
		arena.checkOutside(t, "DriverInit")
		if len(cons.fb) != cols*rows {
			t.Fatalf("text framebuffer has %d cells; want %d", len(cons.fb), cols*rows)
		}
		if c, rr := cons.Dimensions(Characters); c != cols || rr != rows {
			t.Fatalf("grid is %dx%d; want %dx%d", c, rr, cols, rows)
		}

		r := c19Rand(0x7e87)
		for i := range cons.fb {
			cons.fb[i] = uint16(r.next())
		}
		exp := append([]uint16(nil), cons.fb...)

		check := func(what string, args ...uint32) {
			t.Helper()
			arena.checkOutside(t, what)
			for i := range exp {
				if exp[i] != cons.fb[i] {
					t.Fatalf("%s%v: cell %d (column %d, row %d) is 0x%x; want 0x%x", what, args, i, i%cols+1, i/cols+1, cons.fb[i], exp[i])
				}
			}
		}

		for i := 0; i < 600; i++ {
			switch r.upTo(4) {
			case 0, 1:
				ch, fg, bg := byte(r.next()), uint8(r.upTo(16)), uint8(r.upTo(15))
				x, y := c19Coord(&r, cols), c19Coord(&r, rows)
				cons.Write(ch, fg, bg, x, y)
				if x >= 1 && x <= cols && y >= 1 && y <= rows {
					exp[(y-1)*cols+(x-1)] = uint16(bg)<<12 | uint16(fg)<<8 | uint16(ch)
				}
				check("Write", uint32(ch), uint32(fg), uint32(bg), x, y)
			case 2:
				x, y := c19Coord(&r, cols), c19Coord(&r, rows)
				w, h := c19Coord(&r, cols), c19Coord(&r, rows)
				fg, bg := uint8(r.upTo(16)), uint8(r.upTo(16))
				cons.Fill(x, y, w, h, fg, bg)
				cx, cy, cw, ch := c19Clip(x, y, w, h, cols, rows)
				for yy := cy; yy < cy+ch; yy++ {
					for xx := cx; xx < cx+cw; xx++ {
						exp[(yy-1)*cols+(xx-1)] = uint16(bg)<<12 | uint16(fg)<<8 | ' '
					}
				}
				check("Fill", x, y, w, h, uint32(fg), uint32(bg))
			case 3:
				dir := ScrollDir(r.upTo(2))
				lines := c19Coord(&r, rows)
				cons.Scroll(dir, lines)
				if lines >= 1 && lines <= rows {
					old := append([]uint16(nil), exp...)
					if dir == ScrollDirUp {
						copy(exp[:(rows-lines)*cols], old[lines*cols:])
					} else {
						copy(exp[lines*cols:], old[:(rows-lines)*cols])
					}
				}
				check("Scroll", uint32(dir), lines)
			}
		}
	})
}
