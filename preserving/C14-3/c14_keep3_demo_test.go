package acpi

// Demonstration for property C14 (keep3 round). Copy this file to
// kernel/device/acpi/c14_keep3_demo_test.go and run
//
//	cd kernel && go test -vet=off -count=1 -run TestC14Keep3 ./device/acpi/
//
// The test only looks at what the property talks about: which root table
// address / flavour the probe selects and which signatures end up in the
// driver's table map. It passes on the tree with and without the patch.

import (
	"bytes"
	"math/rand"
	"testing"
	"unsafe"

	"github.com/ProjectSerenity/firefly/kernel"
	"github.com/ProjectSerenity/firefly/kernel/device/acpi/table"
	"github.com/ProjectSerenity/firefly/kernel/mm"
	"github.com/ProjectSerenity/firefly/kernel/mm/vmm"
)

func c14Sum(b []byte) uint8 {
	var s uint8
	for _, v := range b {
		s += v
	}
	return s
}

// c14PutRSDP writes a root pointer structure at area[pos:]. rev selects the
// 20-byte (rev 0) or the extended layout. If good is false the checksum that
// the kernel verifies for that revision is made invalid.
func c14PutRSDP(area []byte, pos int, rev uint8, rsdt uint32, xsdt uint64, good bool) {
	sizeofRSDP := int(unsafe.Sizeof(table.RSDPDescriptor{}))
	sizeofExt := int(unsafe.Sizeof(table.ExtRSDPDescriptor{}))

	if rev == acpiRev1 {
		for i := 0; i < sizeofRSDP; i++ {
			area[pos+i] = 0
		}
		d := (*table.RSDPDescriptor)(unsafe.Pointer(&area[pos]))
		d.Signature = rsdpSignature
		d.OEMID = [6]byte{'K', 'E', 'E', 'P', '3', ' '}
		d.Revision = rev
		d.RSDTAddr = rsdt
		d.Checksum = -c14Sum(area[pos : pos+sizeofRSDP])
		if !good {
			d.Checksum += 0x5a
		}
		return
	}

	for i := 0; i < sizeofExt; i++ {
		area[pos+i] = 0
	}
	d := (*table.ExtRSDPDescriptor)(unsafe.Pointer(&area[pos]))
	d.Signature = rsdpSignature
	d.OEMID = [6]byte{'K', 'E', 'E', 'P', '3', ' '}
	d.Revision = rev
	d.RSDTAddr = rsdt
	d.Length = 36
	d.XSDTAddr = xsdt
	d.Checksum = -c14Sum(area[pos : pos+sizeofRSDP])
	d.ExtendedChecksum = -c14Sum(area[pos : pos+sizeofExt])
	if !good {
		d.ExtendedChecksum += 0x33
	}
}

func TestC14Keep3RootPointer(t *testing.T) {
	defer func(rsdpLow, rsdpHi, rsdpAlign uintptr) {
		mapFn = vmm.Map
		unmapFn = vmm.Unmap
		rsdpLocationLow = rsdpLow
		rsdpLocationHi = rsdpHi
		rsdpAlignment = rsdpAlign
	}(rsdpLocationLow, rsdpLocationHi, rsdpAlignment)

	mapFn = func(_ mm.Page, _ mm.Frame, _ vmm.PageTableEntryFlag) *kernel.Error { return nil }
	unmapFn = func(_ mm.Page) *kernel.Error { return nil }

	const areaSize = 1024
	backing := make([]byte, areaSize+16)
	off := 0
	for uintptr(unsafe.Pointer(&backing[off]))&15 != 0 {
		off++
	}
	area := backing[off : off+areaSize]

	rsdpLocationLow = uintptr(unsafe.Pointer(&area[0]))
	rsdpLocationHi = uintptr(unsafe.Pointer(&area[areaSize-1]))
	rsdpAlignment = 16

	sizeofExt := int(unsafe.Sizeof(table.ExtRSDPDescriptor{}))

	for _, rev := range []uint8{acpiRev1, acpiRev2Plus, 3} {
		for pos := 0; pos+sizeofExt <= areaSize; pos += 16 {
			for i := range area {
				area[i] = 0
			}

			// decoys with a matching signature but a bad checksum in
			// front of the real structure
			decoys := 0
			for dpos, drev := pos-48, uint8(acpiRev1); dpos >= 0 && decoys < 4; dpos, drev = dpos-96, drev^2 {
				c14PutRSDP(area, dpos, drev, 0x111111, 0x2222222222, false)
				decoys++
			}

			c14PutRSDP(area, pos, rev, 0xbadf00, 0xc0ffee0000, true)

			addr, useXSDT, err := locateRSDT()
			if err != nil {
				t.Fatalf("rev %d pos %d: unexpected error: %v", rev, pos, err.Message)
			}

			expAddr, expXSDT := uintptr(0xbadf00), false
			if rev != acpiRev1 {
				expAddr, expXSDT = uintptr(0xc0ffee0000), true
			}
			if addr != expAddr || useXSDT != expXSDT {
				t.Fatalf("rev %d pos %d (%d decoys): expected (0x%x, %t); got (0x%x, %t)", rev, pos, decoys, expAddr, expXSDT, addr, useXSDT)
			}

			drv := probeForACPI()
			if drv == nil {
				t.Fatalf("rev %d pos %d: probe failed", rev, pos)
			}
			if d := drv.(*acpiDriver); d.rsdtAddr != expAddr || d.useXSDT != expXSDT {
				t.Fatalf("rev %d pos %d: probe returned (0x%x, %t)", rev, pos, d.rsdtAddr, d.useXSDT)
			}
		}
	}

	// Only decoys: nothing must be accepted.
	for i := range area {
		area[i] = 0
	}
	c14PutRSDP(area, 0, acpiRev1, 1, 2, false)
	c14PutRSDP(area, 64, acpiRev2Plus, 1, 2, false)
	c14PutRSDP(area, 512, acpiRev1, 1, 2, false)
	if _, _, err := locateRSDT(); err != errMissingRSDP {
		t.Fatalf("expected errMissingRSDP when all candidates have a bad checksum; got %v", err)
	}
	if drv := probeForACPI(); drv != nil {
		t.Fatal("expected the probe to fail when all candidates have a bad checksum")
	}
}

type c14Table struct {
	data []byte
	sig  string
	good bool
}

func (tb *c14Table) header() *table.SDTHeader {
	return (*table.SDTHeader)(unsafe.Pointer(&tb.data[0]))
}

func (tb *c14Table) addr() uintptr {
	return uintptr(unsafe.Pointer(&tb.data[0]))
}

// seal fixes up the checksum (or makes it invalid if the table is meant to
// be corrupted).
func (tb *c14Table) seal() {
	h := tb.header()
	h.Checksum = 0
	h.Checksum = -c14Sum(tb.data)
	if !tb.good {
		h.Checksum += 1 + uint8(len(tb.data)%200)
	}
}

func c14NewTable(rng *rand.Rand, sig string, size int, good bool) *c14Table {
	tb := &c14Table{data: make([]byte, size), sig: sig, good: good}
	rng.Read(tb.data)
	h := tb.header()
	copy(h.Signature[:], sig)
	h.Length = uint32(size)
	tb.seal()
	return tb
}

func TestC14Keep3Enumerate(t *testing.T) {
	defer func() {
		identityMapFn = vmm.IdentityMapRegion
	}()

	var (
		rng          = rand.New(rand.NewSource(14))
		sizeofHeader = int(unsafe.Sizeof(table.SDTHeader{}))
		sizeofFADT   = int(unsafe.Sizeof(table.FADT{}))
		sigPool      = []string{"APIC", "SSDT", "HPET", "MCFG", "BGRT", "SRAT", "SLIT", "WAET", "TPM2", "ECDT", "BOOT", "DMAR"}
	)

	modes := []struct {
		name    string
		useXSDT bool
		rootRev uint8
	}{
		{"RSDT/rev0", false, acpiRev1},
		{"XSDT/rev2", true, acpiRev2Plus},
		{"XSDT/rev1", true, 1},
		{"XSDT/rev5", true, 5},
	}

	for _, mode := range modes {
		for round := 0; round < 60; round++ {
			// All tables that can be reached through an index-encoded
			// (32-bit) pointer live in this list.
			var all []*c14Table

			encode := func(tb *c14Table) uintptr {
				for i, cur := range all {
					if cur == tb {
						return uintptr(i)<<mm.PageShift + vmm.PageOffset(tb.addr())
					}
				}
				t.Fatal("table not in list")
				return 0
			}

			// listed tables with distinct signatures in a random order
			perm := rng.Perm(len(sigPool))
			count := rng.Intn(len(sigPool) + 1)
			var listed []*c14Table
			for _, idx := range perm[:count] {
				size := sizeofHeader + rng.Intn(300)
				listed = append(listed, c14NewTable(rng, sigPool[idx], size, rng.Intn(3) != 0))
			}

			// optional FADT + DSDT (+ a table that the unused DSDT
			// pointer refers to and that must never be registered)
			var fadt, dsdt, other *c14Table
			if round%4 != 0 {
				fadt = c14NewTable(rng, fadtSignature, sizeofFADT, rng.Intn(4) != 0)
				dsdt = c14NewTable(rng, "DSDT", sizeofHeader+rng.Intn(2000), rng.Intn(3) != 0)
				other = c14NewTable(rng, "OTHR", sizeofHeader+rng.Intn(64), true)
				at := rng.Intn(len(listed) + 1)
				listed = append(listed[:at], append([]*c14Table{fadt}, listed[at:]...)...)
			}

			all = append(all, listed...)
			if fadt != nil {
				all = append(all, dsdt, other)

				f := (*table.FADT)(unsafe.Pointer(&fadt.data[0]))
				if mode.rootRev >= acpiRev2Plus {
					f.Ext.Dsdt = uint64(dsdt.addr())
					f.Dsdt = uint32(encode(other))
				} else {
					f.Dsdt = uint32(encode(dsdt))
					f.Ext.Dsdt = uint64(other.addr())
				}
				fadt.seal()
			}

			// root table
			entrySize := 4
			if mode.useXSDT {
				entrySize = 8
			}
			root := make([]byte, sizeofHeader+entrySize*len(listed))
			rootHeader := (*table.SDTHeader)(unsafe.Pointer(&root[0]))
			copy(rootHeader.Signature[:], "RSDT")
			if mode.useXSDT {
				copy(rootHeader.Signature[:], "XSDT")
			}
			rootHeader.Revision = mode.rootRev
			rootHeader.Length = uint32(len(root))
			for i, tb := range listed {
				p := unsafe.Pointer(&root[sizeofHeader+i*entrySize])
				if mode.useXSDT {
					*(*uint64)(p) = uint64(tb.addr())
				} else {
					*(*uint32)(p) = uint32(encode(tb))
				}
			}
			rootHeader.Checksum = -c14Sum(root)

			identityMapFn = func(frame mm.Frame, _ uintptr, _ vmm.PageTableEntryFlag) (mm.Page, *kernel.Error) {
				if int(frame) < len(all) {
					return mm.PageFromAddress(all[int(frame)].addr()), nil
				}
				return mm.Page(frame), nil
			}

			var out bytes.Buffer
			drv := &acpiDriver{
				rsdtAddr: uintptr(unsafe.Pointer(&root[0])),
				useXSDT:  mode.useXSDT,
			}
			if err := drv.enumerateTables(&out); err != nil {
				t.Fatalf("[%s round %d] unexpected error: %s", mode.name, round, err.Message)
			}

			// expectation
			exp := make(map[string]*c14Table)
			var bad []*c14Table
			for _, tb := range listed {
				if tb.good {
					exp[tb.sig] = tb
				} else {
					bad = append(bad, tb)
				}
			}
			if fadt != nil && fadt.good {
				if dsdt.good {
					exp["DSDT"] = dsdt
				} else {
					bad = append(bad, dsdt)
				}
			}

			if got := len(drv.tableMap); got != len(exp) {
				t.Fatalf("[%s round %d] expected %d registered tables; got %d\noutput:\n%s", mode.name, round, len(exp), got, out.String())
			}
			for sig, tb := range exp {
				got := drv.tableMap[sig]
				if got == nil {
					t.Fatalf("[%s round %d] expected table %q to be registered", mode.name, round, sig)
				}
				if got != tb.header() {
					t.Fatalf("[%s round %d] table %q registered with the wrong header", mode.name, round, sig)
				}
				if c14Sum(tb.data) != 0 {
					t.Fatalf("[%s round %d] generator bug for %q", mode.name, round, sig)
				}
			}
			for _, tb := range bad {
				if drv.tableMap[tb.sig] != nil {
					t.Fatalf("[%s round %d] corrupted table %q must not be registered", mode.name, round, tb.sig)
				}
				if !bytes.Contains(out.Bytes(), []byte(tb.sig)) {
					t.Fatalf("[%s round %d] corrupted table %q was not reported; output:\n%s", mode.name, round, tb.sig, out.String())
				}
			}

			// DriverInit runs the same enumeration and then prints
			// the table list.
			out.Reset()
			drv2 := &acpiDriver{rsdtAddr: drv.rsdtAddr, useXSDT: mode.useXSDT}
			if err := drv2.DriverInit(&out); err != nil {
				t.Fatalf("[%s round %d] DriverInit: %s", mode.name, round, err.Message)
			}
			if len(drv2.tableMap) != len(exp) {
				t.Fatalf("[%s round %d] DriverInit registered %d tables; expected %d", mode.name, round, len(drv2.tableMap), len(exp))
			}
			for sig := range exp {
				if !bytes.Contains(out.Bytes(), []byte(sig)) {
					t.Fatalf("[%s round %d] DriverInit did not print table %q", mode.name, round, sig)
				}
			}
		}
	}
}

// The checksum helper must agree with a plain byte sum for any start
// alignment and length.
func TestC14Keep3ValidTable(t *testing.T) {
	rng := rand.New(rand.NewSource(1400))
	buf := make([]byte, 4096)

	for i := 0; i < 5000; i++ {
		start := rng.Intn(64)
		length := rng.Intn(700)
		region := buf[start : start+length]
		rng.Read(region)

		if length > 0 && rng.Intn(2) == 0 {
			// make it valid
			at := rng.Intn(length)
			region[at] = 0
			region[at] = -c14Sum(region)
		}

		exp := c14Sum(region) == 0
		if got := validTable(uintptr(unsafe.Pointer(&buf[start])), uint32(length)); got != exp {
			t.Fatalf("start %d length %d: expected validTable to return %t; got %t", start, length, exp, got)
		}
	}
}
