package vmm

import (
	"math"
	"testing"

	"github.com/ProjectSerenity/firefly/kernel"
	"github.com/ProjectSerenity/firefly/kernel/mm"
)

// c07Pages returns the number of pages needed to cover size bytes and false
// if that page count cannot be expressed as a byte size.
func c07Pages(size uintptr) (uintptr, bool) {
	n := size / mm.PageSize
	if size%mm.PageSize != 0 {
		n++
	}
	return n, uint64(n) <= math.MaxUint64/uint64(mm.PageSize)
}

// c07Fits reports whether a request for size bytes fits below boundary.
func c07Fits(size, boundary uintptr) bool {
	n, ok := c07Pages(size)
	return ok && n <= boundary/mm.PageSize
}

var c07Sizes = []uintptr{
	0, 1, 42, mm.PageSize - 1, mm.PageSize, mm.PageSize + 1, 3 * mm.PageSize, 128000,
	0, 1 << 30, 1<<30 + 7,
	math.MaxUint64, math.MaxUint64 - (mm.PageSize - 1), math.MaxUint64 - mm.PageSize, math.MaxUint64 - (mm.PageSize - 2),
	1 << 63, 1<<63 + 1, tempMappingAddr, tempMappingAddr + 1, tempMappingAddr + mm.PageSize,
	5, 2 * mm.PageSize,
}

// TestC07KeepReservationsAndRegionMapping checks the statements of property
// C07 only: reservations are page aligned, large enough, lie below everything
// reserved before them and below the temporary mapping page, requests that
// do not fit fail and reserve nothing, and MapRegion maps exactly the pages
// that cover the requested size, consecutive pages to consecutive frames.
// It looks neither at the order in which pages get mapped, nor at the
// identity of the returned errors, nor at what is left behind by a request
// that failed half way through for a reason other than lack of space.
func TestC07KeepReservationsAndRegionMapping(t *testing.T) {
	defer func(origLastUsed uintptr) {
		earlyReserveLastUsed = origLastUsed
		mapFn = Map
		unmapFn = Unmap
		earlyReserveRegionFn = EarlyReserveRegion
	}(earlyReserveLastUsed)

	// never touch real page tables from a user-mode test
	unmapFn = func(_ mm.Page) *kernel.Error { return nil }

	t.Run("reserve sequences", func(t *testing.T) {
		starts := []uintptr{tempMappingAddr, 0, mm.PageSize, 8 * mm.PageSize, 1 << 31, 40 * mm.PageSize}
		for _, start := range starts {
			earlyReserveLastUsed = start
			boundary := start // lowest address handed out so far

			// walk the size list twice, the second time in reverse
			for pass := 0; pass < 2; pass++ {
				for i := range c07Sizes {
					size := c07Sizes[i]
					if pass == 1 {
						size = c07Sizes[len(c07Sizes)-1-i]
					}

					fits := c07Fits(size, boundary)
					addr, err := EarlyReserveRegion(size)
					if !fits {
						if err == nil {
							t.Fatalf("[start %#x] size %#x does not fit below %#x but got region %#x", start, size, boundary, addr)
						}
						if earlyReserveLastUsed != boundary {
							t.Fatalf("[start %#x] failed request for %#x moved the boundary from %#x to %#x", start, size, boundary, earlyReserveLastUsed)
						}
						continue
					}

					if err != nil {
						t.Fatalf("[start %#x] size %#x fits below %#x but got error %v", start, size, boundary, err)
					}
					if addr%mm.PageSize != 0 {
						t.Fatalf("[start %#x] region %#x for size %#x is not page-aligned", start, addr, size)
					}
					// the region [addr, addr+size) must not wrap and must
					// end at or below everything reserved before
					if addr > boundary || boundary-addr < size {
						t.Fatalf("[start %#x] region %#x of %#x bytes is not below %#x", start, addr, size, boundary)
					}
					if start <= tempMappingAddr && addr+size > tempMappingAddr {
						t.Fatalf("[start %#x] region %#x reaches the temporary mapping page", start, addr)
					}
					boundary = addr
				}
			}
		}
	})

	t.Run("map region", func(t *testing.T) {
		type pair struct {
			page  mm.Page
			frame mm.Frame
		}

		var seen map[pair]int
		mapFn = func(page mm.Page, frame mm.Frame, flags PageTableEntryFlag) *kernel.Error {
			if flags != FlagPresent|FlagRW {
				t.Errorf("unexpected flags %v", flags)
			}
			seen[pair{page, frame}]++
			return nil
		}

		startFrame := mm.Frame(0xdf0000)
		for _, start := range []uintptr{tempMappingAddr, 64 * mm.PageSize, 3 * mm.PageSize} {
			earlyReserveLastUsed = start
			boundary := start

			for _, size := range c07Sizes {
				if n, ok := c07Pages(size); ok && n > 1024 && n <= boundary/mm.PageSize {
					// fits but is far too big to record page by page
					continue
				}

				seen = make(map[pair]int)
				fits := c07Fits(size, boundary)
				page, err := MapRegion(startFrame, size, FlagPresent|FlagRW)
				if !fits {
					if err == nil {
						t.Fatalf("[start %#x] size %#x does not fit below %#x but MapRegion succeeded", start, size, boundary)
					}
					if len(seen) != 0 {
						t.Fatalf("[start %#x] size %#x does not fit but %d pages got mapped", start, size, len(seen))
					}
					if earlyReserveLastUsed != boundary {
						t.Fatalf("[start %#x] failed MapRegion(%#x) moved the boundary", start, size)
					}
					continue
				}

				if err != nil {
					t.Fatalf("[start %#x] size %#x fits below %#x but got error %v", start, size, boundary, err)
				}

				addr := page.Address()
				if addr > boundary || boundary-addr < size {
					t.Fatalf("[start %#x] mapped region %#x of %#x bytes is not below %#x", start, addr, size, boundary)
				}

				expPages, _ := c07Pages(size)
				if uintptr(len(seen)) != expPages {
					t.Fatalf("[start %#x] size %#x: expected %d distinct mappings; got %d", start, size, expPages, len(seen))
				}
				for i := uintptr(0); i < expPages; i++ {
					if got := seen[pair{page + mm.Page(i), startFrame + mm.Frame(i)}]; got != 1 {
						t.Fatalf("[start %#x] size %#x: page %d of the region mapped %d times to its frame", start, size, i, got)
					}
				}

				boundary = earlyReserveLastUsed
				if boundary > addr {
					t.Fatalf("[start %#x] boundary %#x is above the region just returned (%#x)", start, boundary, addr)
				}
			}
		}
	})

	t.Run("map failure keeps later regions apart", func(t *testing.T) {
		expErr := &kernel.Error{Module: "test", Message: "map failed"}

		for failAt := 1; failAt <= 5; failAt++ {
			earlyReserveLastUsed = tempMappingAddr

			first, err := EarlyReserveRegion(2 * mm.PageSize)
			if err != nil {
				t.Fatal(err)
			}

			calls := 0
			mapFn = func(_ mm.Page, _ mm.Frame, _ PageTableEntryFlag) *kernel.Error {
				calls++
				if calls == failAt {
					return expErr
				}
				return nil
			}

			if _, err = MapRegion(mm.Frame(1), 5*mm.PageSize, FlagPresent|FlagRW); err == nil {
				t.Fatalf("[failAt %d] expected MapRegion to report the mapping failure", failAt)
			}

			// Whatever the failed call left behind, regions handed
			// out afterwards still lie below the earlier ones.
			mapFn = func(_ mm.Page, _ mm.Frame, _ PageTableEntryFlag) *kernel.Error { return nil }
			page, err := MapRegion(mm.Frame(1), mm.PageSize+1, FlagPresent|FlagRW)
			if err != nil {
				t.Fatal(err)
			}
			if end := page.Address() + 2*mm.PageSize; end > first {
				t.Fatalf("[failAt %d] region ending at %#x overlaps the one at %#x", failAt, end, first)
			}
		}
	})
}
