package main

import (
	"fmt"
	"io/ioutil"
	"math/rand"
	"os"
	"path"
	"path/filepath"
	"sort"
	"strings"
	"testing"
)

// This demonstration only relies on what property C20 states:
//
//   - the table has exactly one entry per //go:redirect-from
//     annotation on a function declaration in a non-test file,
//     with the source symbol as written and the destination the
//     function's fully qualified name, and nothing else;
//   - scanning the same tree twice gives the same table in the
//     same order.
//
// It does not assume any particular order of the table, nor
// anything about the Comment field or the internals of the scan.

const keepPkgPrefix = "github.com/ProjectSerenity/firefly/kernel"

type keepEntry struct{ Src, Dst string }

// keepScan runs the build tool's redirect scan in dir, the
// same way main does (from the root of the tree, on a fresh
// context), and returns the table in table order.
func keepScan(t *testing.T, dir string) []keepEntry {
	t.Helper()
	cwd, err := os.Getwd()
	if err != nil {
		t.Fatal(err)
	}

	if err = os.Chdir(dir); err != nil {
		t.Fatal(err)
	}

	defer func() {
		if err := os.Chdir(cwd); err != nil {
			t.Fatal(err)
		}
	}()

	ctx := &Context{WorkDir: "keep-demo"}
	ctx.FindRedirects()

	out := make([]keepEntry, len(ctx.Redirects))
	for i, r := range ctx.Redirects {
		if r == nil {
			t.Fatalf("entry %d is nil", i)
		}

		if r.SrcVirtAddr != 0 || r.DstVirtAddr != 0 {
			t.Errorf("entry %d has addresses before linking: %+v", i, r)
		}

		out[i] = keepEntry{Src: r.SrcSymbol, Dst: r.DstSymbol}
	}

	return out
}

func keepSorted(in []keepEntry) []keepEntry {
	out := append([]keepEntry(nil), in...)
	sort.Slice(out, func(i, j int) bool {
		if out[i].Src != out[j].Src {
			return out[i].Src < out[j].Src
		}
		return out[i].Dst < out[j].Dst
	})
	return out
}

func keepEqual(a, b []keepEntry) bool {
	if len(a) != len(b) {
		return false
	}
	for i := range a {
		if a[i] != b[i] {
			return false
		}
	}
	return true
}

// keepCheck scans dir twice and checks the table against the
// expected multiset of entries.
func keepCheck(t *testing.T, dir string, want []keepEntry) []keepEntry {
	t.Helper()
	first := keepScan(t, dir)
	second := keepScan(t, dir)
	if !keepEqual(first, second) {
		t.Errorf("two scans of the same tree differ:\n 1st: %v\n 2nd: %v", first, second)
	}

	got, exp := keepSorted(first), keepSorted(want)
	if !keepEqual(got, exp) {
		t.Errorf("wrong table contents:\n got:  %v\n want: %v", got, exp)
	}

	return first
}

func keepWrite(t *testing.T, root, name, content string) {
	t.Helper()
	full := filepath.Join(root, filepath.FromSlash(name))
	if err := os.MkdirAll(filepath.Dir(full), 0755); err != nil {
		t.Fatal(err)
	}

	if err := ioutil.WriteFile(full, []byte(content), 0644); err != nil {
		t.Fatal(err)
	}
}

func keepTempDir(t *testing.T) string {
	t.Helper()
	dir, err := ioutil.TempDir("", "keep-c20")
	if err != nil {
		t.Fatal(err)
	}

	t.Cleanup(func() { os.RemoveAll(dir) })
	return dir
}

func TestKeepRedirectTable(t *testing.T) {
	t.Run("handwritten", func(t *testing.T) {
		root := keepTempDir(t)
		keepWrite(t, root, "top.go", `package kernel

// Kmain is the entry point.
//
//go:noinline
//go:redirect-from runtime.rt0_go
func Kmain() {
	// An ordinary comment in a body.
	//go:redirect-from runtime.inBody
}
`)
		keepWrite(t, root, "goruntime/bootstrap.go", `// Package goruntime bootstraps the runtime.
//go:redirect-from runtime.onPackageClause
package goruntime

import "unsafe"

//go:redirect-from runtime.onImportlessVar
var mapFn = 1

//go:redirect-from runtime.onType
type thing struct{}

//go:redirect-from runtime.onConst
const c = 2

// sysReserve reserves memory.
//
//go:redirect-from runtime.sysReserve
//go:nosplit
func sysReserve(_ unsafe.Pointer, size uintptr) unsafe.Pointer { return nil }

//go:nosplit
//go:redirect-from runtime.sysMap
//go:redirect-from runtime.sysMapOS
// Trailing doc text.
//go:redirect-from   runtime.sysMapSpaced
func sysMap() {}

//go:redirect-from runtime.detached

func notAnnotated() {}

// go:redirect-from runtime.spaced
func alsoNotAnnotated() {}

/*
//go:redirect-from runtime.inBlock
*/
func blockDoc() {}

//go:redirect-from runtime.method
func (thing) Method() {}

//go:redirect-from runtime.twice
//go:redirect-from runtime.twice
func twice() {}

func trailing() {} //go:redirect-from runtime.trailing
`)
		keepWrite(t, root, "goruntime/bootstrap_test.go", `package goruntime

//go:redirect-from runtime.inTestFile
func helper() {}
`)
		keepWrite(t, root, "goruntime/notes.go.txt", "//go:redirect-from runtime.inTextFile\nfunc x() {}\n")
		keepWrite(t, root, "arch/amd64/rt0/rt0_64.s", ";//go:redirect-from runtime.inAsm\n")
		keepWrite(t, root, "a/b/c/d/e/deep.go", "package e\r\n\r\n//go:redirect-from runtime.crlf\r\nfunc Deep() {}\r\n")
		keepWrite(t, root, "kfmt/panic.go", `package kfmt

//go:redirect-from runtime.gopanic
func panic(e interface{}) {}

//go:redirect-from runtime.throw
func panicString(msg string) {}
`)
		keepWrite(t, root, "kfmt/plain.go", "package kfmt\n\n// Nothing here.\nfunc plain() {}\n")

		gr := keepPkgPrefix + "/goruntime."
		keepCheck(t, root, []keepEntry{
			{"runtime.rt0_go", keepPkgPrefix + ".Kmain"},
			{"runtime.sysReserve", gr + "sysReserve"},
			{"runtime.sysMap", gr + "sysMap"},
			{"runtime.sysMapOS", gr + "sysMap"},
			{"runtime.sysMapSpaced", gr + "sysMap"},
			{"runtime.method", gr + "Method"},
			{"runtime.twice", gr + "twice"},
			{"runtime.twice", gr + "twice"},
			{"runtime.crlf", keepPkgPrefix + "/a/b/c/d/e.Deep"},
			{"runtime.gopanic", keepPkgPrefix + "/kfmt.panic"},
			{"runtime.throw", keepPkgPrefix + "/kfmt.panicString"},
		})
	})

	t.Run("empty", func(t *testing.T) {
		root := keepTempDir(t)
		keepWrite(t, root, "x/y.go", "package x\n\nfunc y() {}\n")
		keepWrite(t, root, "x/y_test.go", "package x\n\n//go:redirect-from runtime.z\nfunc z() {}\n")
		keepCheck(t, root, nil)
	})

	t.Run("generated", func(t *testing.T) {
		for seed := int64(1); seed <= 25; seed++ {
			seed := seed
			t.Run(fmt.Sprintf("seed%d", seed), func(t *testing.T) {
				files, want := keepGenerate(rand.New(rand.NewSource(seed)))

				root := keepTempDir(t)
				names := make([]string, 0, len(files))
				for name := range files {
					names = append(names, name)
				}

				sort.Strings(names)
				for _, name := range names {
					keepWrite(t, root, name, files[name])
				}

				first := keepCheck(t, root, want)

				// The same tree, created in a different order
				// in a different place, is still the same tree.
				other := keepTempDir(t)
				for i := len(names) - 1; i >= 0; i-- {
					keepWrite(t, other, names[i], files[names[i]])
				}

				again := keepCheck(t, other, want)
				if !keepEqual(first, again) {
					t.Errorf("copies of the same tree give different tables:\n 1st: %v\n 2nd: %v", first, again)
				}
			})
		}
	})

	t.Run("kernel", func(t *testing.T) {
		root := filepath.Join("..", "kernel")
		if _, err := os.Stat(filepath.Join(root, "kfmt", "panic.go")); err != nil {
			t.Skipf("kernel tree not found: %v", err)
		}

		keepCheck(t, root, []keepEntry{
			{"runtime.init", keepPkgPrefix + "/goruntime.runtimeInit"},
			{"runtime.sysReserve", keepPkgPrefix + "/goruntime.sysReserve"},
			{"runtime.sysMap", keepPkgPrefix + "/goruntime.sysMap"},
			{"runtime.sysAlloc", keepPkgPrefix + "/goruntime.sysAlloc"},
			{"runtime.nanotime", keepPkgPrefix + "/goruntime.nanotime"},
			{"runtime.getRandomData", keepPkgPrefix + "/goruntime.getRandomData"},
			{"runtime.gopanic", keepPkgPrefix + "/kfmt.Panic"},
			{"runtime.throw", keepPkgPrefix + "/kfmt.panicString"},
		})
	})
}

// keepGenerate builds a random source tree, returning the
// files by slash-separated path and the entries the table
// must contain.
func keepGenerate(rng *rand.Rand) (map[string]string, []keepEntry) {
	files := make(map[string]string)
	var want []keepEntry

	dirNames := []string{"arch", "amd64", "mm", "vmm", "kfmt", "goruntime", "x", "z9", "Upper", "a_b"}
	var dirs []string
	dirs = append(dirs, ".")
	for i, n := 0, 2+rng.Intn(6); i < n; i++ {
		parent := dirs[rng.Intn(len(dirs))]
		dir := path.Join(parent, dirNames[rng.Intn(len(dirNames))])
		dirs = append(dirs, dir)
	}

	sym := 0
	nextSym := func() string {
		sym++
		pkgs := []string{"runtime", "runtime/internal/sys", "sync", "main"}
		return fmt.Sprintf("%s.sym%d", pkgs[rng.Intn(len(pkgs))], sym)
	}

	for i, n := 0, 3+rng.Intn(10); i < n; i++ {
		dir := dirs[rng.Intn(len(dirs))]
		kind := rng.Intn(10)
		name := fmt.Sprintf("f%d.go", i)
		counted := true
		switch {
		case kind == 0:
			name = fmt.Sprintf("f%d_test.go", i)
			counted = false
		case kind == 1:
			name = fmt.Sprintf("f%d.s", i)
			counted = false
		}

		eol := "\n"
		if rng.Intn(4) == 0 {
			eol = "\r\n"
		}

		var b strings.Builder
		line := func(s string) { b.WriteString(s); b.WriteString(eol) }
		if rng.Intn(3) == 0 {
			line("//go:redirect-from " + nextSym())
		}

		line("package p")
		line("")
		for d, nd := 0, rng.Intn(7); d < nd; d++ {
			ident := fmt.Sprintf("d%d_%d", i, d)
			switch rng.Intn(8) {
			case 0:
				line("//go:redirect-from " + nextSym())
				line("var " + ident + " = 1")
			case 1:
				line("// " + ident + " is a type.")
				line("//go:redirect-from " + nextSym())
				line("type " + ident + " struct{}")
			case 2:
				line("func " + ident + "() {")
				line("\t//go:redirect-from " + nextSym())
				line("\t_ = 0 //go:redirect-from " + nextSym())
				line("}")
			case 3:
				line("//go:redirect-from " + nextSym())
				line("")
				line("func " + ident + "() {}")
			case 4:
				line("// go:redirect-from " + nextSym())
				line("/* //go:redirect-from " + nextSym() + " */")
				line("func " + ident + "() {}")
			default:
				for a, na := 0, rng.Intn(4); a < na; a++ {
					switch rng.Intn(4) {
					case 0:
						line("// " + ident + " does things.")
					case 1:
						line("//go:nosplit")
					case 2:
						line("//")
					}

					from := nextSym()
					line("//go:redirect-from " + from)
					if counted {
						want = append(want, keepEntry{
							Src: from,
							Dst: path.Join(keepPkgPrefix, dir) + "." + ident,
						})
					}
				}

				if rng.Intn(2) == 0 {
					line("//go:noinline")
				}

				line("func " + ident + "(x int) int { return x }")
			}

			line("")
		}

		files[path.Join(dir, name)] = b.String()
	}

	return files, want
}
