//go:build verif
// +build verif

package vmm

// C07 — kernel virtual-region reservations never overlap and never wrap.
//
// Explicit-state search over the real EarlyReserveRegion / MapRegion /
// IdentityMapRegion. The complete mutable state of the reservation mechanism
// is one integer (earlyReserveLastUsed); the search state adds the lowest
// address handed out so far so that "below every region reserved before" is
// checked against what callers were given, not against the cursor.

import (
	"fmt"
	"testing"

	"github.com/ProjectSerenity/firefly/kernel"
	"github.com/ProjectSerenity/firefly/kernel/internal/verifrt"
	"github.com/ProjectSerenity/firefly/kernel/mm"
)

type vf07Op struct {
	Kind   string `json:"kind"` // reserve | mapregion | identity
	Size   uint64 `json:"size"`
	Frame  uint64 `json:"frame"`
	FailAt int    `json:"fail_at"` // mapFn returns an error at this call (1-based); 0 = never
	Cap    int    `json:"map_cap,omitempty"` // mapFn calls the environment allows (default vf07MapCap)
}

type vf07State struct {
	Cursor uint64
	Low    uint64 // lowest address returned so far (== start cursor when none)
	Hist   []vf07Op
}

type vf07Replay struct {
	Start uint64   `json:"start"`
	Ops   []vf07Op `json:"ops"`
}

const vf07MapCap = 40 // mapFn calls allowed before the environment injects an error

var vf07InjErr = &kernel.Error{Module: "verif", Message: "injected map failure"}

func vf07Sizes(c uint64) []uint64 {
	max := ^uint64(0)
	cand := []uint64{0, 1, 4095, 4096, 4097, 3 * 4096, c / 2, c/2 + 0x801, c - 4096, c - 1, c, c + 1, c + 4096, 1 << 63, max - 4096 + 1, max - 4095 + 1, max - 100, max}
	var out []uint64
	seen := map[uint64]bool{}
	for _, s := range cand {
		if !seen[s] {
			seen[s] = true
			out = append(out, s)
		}
	}
	return out
}

func vf07Ops(c uint64) []vf07Op {
	var ops []vf07Op
	for _, s := range vf07Sizes(c) {
		ops = append(ops, vf07Op{Kind: "reserve", Size: s})
	}
	for _, s := range vf07Sizes(c) {
		for _, f := range []uint64{0, 0x1234} {
			ops = append(ops, vf07Op{Kind: "mapregion", Size: s, Frame: f})
			ops = append(ops, vf07Op{Kind: "identity", Size: s, Frame: f})
		}
		ops = append(ops, vf07Op{Kind: "mapregion", Size: s, Frame: 7, FailAt: 1})
		ops = append(ops, vf07Op{Kind: "mapregion", Size: s, Frame: 7, FailAt: 2})
		ops = append(ops, vf07Op{Kind: "identity", Size: s, Frame: 7, FailAt: 2})
	}
	return ops
}

// pages needed to cover s bytes, computed without overflow.
func vf07Pages(s uint64) uint64 {
	p := s >> 12
	if s&0xfff != 0 {
		p++
	}
	return p
}

type vf07Call struct {
	page  mm.Page
	frame mm.Frame
	flags PageTableEntryFlag
}

// vf07Step applies one op to the real code starting from st and returns the
// successor state and a violation description ("" if the oracle holds).
func vf07Step(st vf07State, op vf07Op) (vf07State, string, string) {
	origMap, origRes, origUnmap := mapFn, earlyReserveRegionFn, unmapFn
	defer func() { mapFn, earlyReserveRegionFn, unmapFn = origMap, origRes, origUnmap }()
	earlyReserveRegionFn = EarlyReserveRegion

	vf07MapCap := uint64(vf07MapCap)
	if op.Cap > 0 {
		vf07MapCap = uint64(op.Cap) // a long-run case: the recording seam allows this many calls
	}
	var calls []vf07Call
	injected := false
	nMap := 0
	mapFn = func(p mm.Page, f mm.Frame, fl PageTableEntryFlag) *kernel.Error {
		nMap++
		if (op.FailAt != 0 && nMap == op.FailAt) || uint64(nMap) >= vf07MapCap {
			injected = true
			return vf07InjErr // the failing call maps nothing
		}
		calls = append(calls, vf07Call{p, f, fl})
		return nil
	}

	// an implementation may take back pages it mapped before a failure: what counts is what stays mapped
	unmapFn = func(p mm.Page) *kernel.Error {
		for i, c := range calls {
			if c.page == p {
				calls = append(calls[:i:i], calls[i+1:]...)
				break
			}
		}
		return nil
	}

	earlyReserveLastUsed = uintptr(st.Cursor)
	const flags = FlagPresent | FlagRW
	var (
		addr uint64
		err  *kernel.Error
		pan  interface{}
	)
	func() {
		defer func() { pan = recover() }()
		switch op.Kind {
		case "reserve":
			var a uintptr
			a, err = EarlyReserveRegion(uintptr(op.Size))
			addr = uint64(a)
		case "mapregion":
			var p mm.Page
			p, err = MapRegion(mm.Frame(op.Frame), uintptr(op.Size), flags)
			addr = uint64(p.Address())
		case "identity":
			var p mm.Page
			p, err = IdentityMapRegion(mm.Frame(op.Frame), uintptr(op.Size), flags)
			addr = uint64(p.Address())
		}
	}()
	next := vf07State{Cursor: uint64(earlyReserveLastUsed), Low: st.Low}
	next.Hist = append(append([]vf07Op{}, st.Hist...), op)
	if pan != nil {
		return next, "panic", fmt.Sprintf("%s(size=%#x) panicked: %v", op.Kind, op.Size, pan)
	}

	pages := vf07Pages(op.Size)
	representable := pages < (1 << 52) // pages*4096 fits in 64 bits
	need := pages << 12

	// checkCalls: the pages mapped are pairs (firstPage+i -> op.Frame+i) with the requested flags, each at most once, in
	// whatever order the implementation maps them; all n of them when complete, any subset of them when the map seam
	// failed part-way.
	checkCalls := func(firstPage uint64, n int, complete bool) string {
		if complete && len(calls) != n {
			return fmt.Sprintf("%d pages mapped, expected %d", len(calls), n)
		}
		seen := map[uint64]bool{}
		for i, c := range calls {
			k := uint64(c.page) - firstPage
			if uint64(c.page) < firstPage || k >= uint64(n) || uint64(c.frame) != op.Frame+k || c.flags != flags {
				return fmt.Sprintf("call %d mapped page %#x -> frame %#x flags %#x, which is not one of the pairs page %#x+i -> frame %#x+i (i < %d) flags %#x", i, uint64(c.page), uint64(c.frame), uint64(c.flags), firstPage, op.Frame, n, uint64(flags))
			}
			if seen[k] {
				return fmt.Sprintf("page %#x mapped twice", uint64(c.page))
			}
			seen[k] = true
		}
		return ""
	}

	switch op.Kind {
	case "reserve", "mapregion":
		// a reservation failure must leave the cursor alone
		reserveFailed := err != nil && err != vf07InjErr
		if reserveFailed {
			if next.Cursor != st.Cursor {
				return next, "failed-but-reserved", fmt.Sprintf("%s(size=%#x) failed (%s) but the cursor moved %#x -> %#x", op.Kind, op.Size, err.Message, st.Cursor, next.Cursor)
			}
			if len(calls) != 0 {
				return next, "failed-but-mapped", fmt.Sprintf("%s(size=%#x) failed to reserve but mapped %d pages", op.Kind, op.Size, len(calls))
			}
			if representable && need+4096 <= st.Cursor && need+4096 > need {
				return next, "spurious-failure", fmt.Sprintf("%s(size=%#x) failed (%s) although %#x bytes are free below the cursor", op.Kind, op.Size, err.Message, st.Cursor)
			}
			return next, "", ""
		}
		// success (or a failure injected by the map seam after the reservation succeeded)
		region := addr
		if err == vf07InjErr {
			if nMap == 0 {
				return next, "env", "injected error without a call"
			}
			region = next.Cursor // the reservation was made before the first page was mapped
		}
		if !representable {
			return next, "wrapped-size", fmt.Sprintf("%s(size=%#x) succeeded (region %#x) although rounding the size up to whole pages does not fit in the address space", op.Kind, op.Size, region)
		}
		if region&0xfff != 0 {
			return next, "unaligned", fmt.Sprintf("%s(size=%#x) returned unaligned address %#x", op.Kind, op.Size, region)
		}
		if region > st.Low || st.Low-region < need {
			return next, "overlap", fmt.Sprintf("%s(size=%#x) returned region [%#x,+%#x) which is not entirely below the lowest earlier reservation %#x", op.Kind, op.Size, region, need, st.Low)
		}
		if next.Cursor > region {
			return next, "cursor-above-region", fmt.Sprintf("%s(size=%#x) returned %#x but left the cursor at %#x: the next reservation would overlap it", op.Kind, op.Size, region, next.Cursor)
		}
		if need > 0 && region < next.Low {
			next.Low = region
		}
		if need == 0 && next.Cursor < next.Low {
			next.Low = next.Cursor
		}
		if op.Kind == "mapregion" {
			want := int(pages)
			if err == vf07InjErr {
				if uint64(len(calls)) > pages {
					return next, "mapped-too-many", fmt.Sprintf("mapregion(size=%#x) mapped %d pages, only %d needed", op.Size, len(calls), pages)
				}
			} else if pages >= vf07MapCap {
				return next, "mapped-too-few", fmt.Sprintf("mapregion(size=%#x) reported success after %d of %d pages", op.Size, len(calls), pages)
			}
			if msg := checkCalls(region>>12, want, err == nil && pages < vf07MapCap); msg != "" {
				return next, "wrong-mapping", fmt.Sprintf("mapregion(frame=%#x,size=%#x): %s", op.Frame, op.Size, msg)
			}
			if err == nil && op.FailAt != 0 && uint64(op.FailAt) <= pages {
				return next, "error-swallowed", fmt.Sprintf("mapregion(size=%#x): map error at call %d not returned", op.Size, op.FailAt)
			}
		}
	case "identity":
		if next.Cursor != st.Cursor {
			return next, "identity-moved-cursor", fmt.Sprintf("identity map moved the reservation cursor %#x -> %#x", st.Cursor, next.Cursor)
		}
		if err != nil && err != vf07InjErr {
			if len(calls) != 0 {
				return next, "failed-but-mapped", fmt.Sprintf("identity(size=%#x) failed (%s) after mapping %d pages", op.Size, err.Message, len(calls))
			}
			if representable && pages < vf07MapCap {
				return next, "spurious-failure", fmt.Sprintf("identity(size=%#x) failed: %s", op.Size, err.Message)
			}
			return next, "", ""
		}
		if !representable {
			return next, "wrapped-size", fmt.Sprintf("identity(frame=%#x,size=%#x) reported success having mapped %d pages; the size does not fit in the address space", op.Frame, op.Size, len(calls))
		}
		want := int(pages)
		if err == vf07InjErr {
			if uint64(len(calls)) > pages {
				return next, "mapped-too-many", fmt.Sprintf("identity(size=%#x) mapped %d pages, only %d needed", op.Size, len(calls), pages)
			}
		} else {
			if pages >= vf07MapCap {
				return next, "mapped-too-few", fmt.Sprintf("identity(size=%#x) reported success after %d of %d pages", op.Size, len(calls), pages)
			}
			if addr != op.Frame<<12 {
				return next, "wrong-mapping", fmt.Sprintf("identity(frame=%#x) returned page address %#x", op.Frame, addr)
			}
			if op.FailAt != 0 && uint64(op.FailAt) <= pages {
				return next, "error-swallowed", fmt.Sprintf("identity(size=%#x): map error at call %d not returned", op.Size, op.FailAt)
			}
		}
		if msg := checkCalls(op.Frame, want, err == nil); msg != "" {
			return next, "wrong-mapping", fmt.Sprintf("identity(frame=%#x,size=%#x): %s", op.Frame, op.Size, msg)
		}
	}
	_ = injected
	return next, "", ""
}

func TestVerifC07(t *testing.T) {
	run := verifrt.Start("C07")
	saved := earlyReserveLastUsed
	defer func() { earlyReserveLastUsed = saved }()

	var rp vf07Replay
	if run.Replaying(&rp) {
		st := vf07State{Cursor: rp.Start, Low: rp.Start}
		for i, op := range rp.Ops {
			var class, desc string
			st, class, desc = vf07Step(st, op)
			run.Case()
			if class != "" {
				run.Violate(class, fmt.Sprintf("start=%#x %s", rp.Start, verifrt.JSONKey(rp.Ops[:i+1])), desc, vf07Replay{rp.Start, rp.Ops[:i+1]})
				break
			}
		}
		run.Finish(true, "replay", "replay of one recorded operation sequence")
		return
	}

	depth := 8
	if run.Thorough() {
		depth = 14
	}
	starts := []uint64{uint64(tempMappingAddr), 0x3000, 0x1000, 0}
	allComplete := true
	for si, start := range starts {
		if !run.Mine(si) {
			continue
		}
		start := start
		g := &verifrt.Graph{
			MaxDepth: depth,
			Key: func(s interface{}) string {
				st := s.(vf07State)
				return fmt.Sprintf("%x/%x", st.Cursor, st.Low)
			},
			Succ: func(g *verifrt.Graph, id int, s interface{}, emit func(string, interface{})) {
				st := s.(vf07State)
				for _, op := range vf07Ops(st.Cursor) {
					next, class, desc := vf07Step(st, op)
					run.Case()
					run.Sample(map[string]interface{}{"start": fmt.Sprintf("%#x", start), "ops": next.Hist})
					if class != "" {
						run.Violate(class, fmt.Sprintf("start=%#x %s", start, verifrt.JSONKey(next.Hist)), desc, vf07Replay{start, next.Hist})
						continue // do not explore beyond a violating step
					}
					run.Distinct(fmt.Sprintf("%x/%x", next.Cursor, next.Low))
					emit(op.Kind, next)
				}
			},
		}
		g.Run([]interface{}{vf07State{Cursor: start, Low: start}})
		run.States += g.States
		run.Transitions += g.Transitions
		run.Traces += g.Transitions
		if !g.Complete && !g.DepthCapped {
			allComplete = false
		}
	}
	// long runs: regions of 511..1537 pages (one, two, three and four last-level tables' worth) mapped after reservations
	// that place them at different offsets inside a table; complete, and with a failure in the middle
	if run.Mine(len(starts)) {
		for _, pre := range []uint64{0, 1, 510, 511, 512, 513} {
			for _, pages := range []uint64{511, 512, 513, 514, 1023, 1024, 1025, 1030, 1537} {
				for _, frame := range []uint64{0, 0x1234} {
					for _, failAt := range []int{0, 600} {
						for _, kind := range []string{"mapregion", "identity"} {
							st := vf07State{Cursor: uint64(tempMappingAddr), Low: uint64(tempMappingAddr)}
							ops := []vf07Op{}
							if pre > 0 {
								ops = append(ops, vf07Op{Kind: "reserve", Size: pre * 4096})
							}
							ops = append(ops, vf07Op{Kind: kind, Size: pages*4096 - 7, Frame: frame, FailAt: failAt, Cap: 2000}, vf07Op{Kind: "reserve", Size: 4096})
							for i, op := range ops {
								var class, desc string
								st, class, desc = vf07Step(st, op)
								run.Case()
								if class != "" {
									run.Violate(class, fmt.Sprintf("long %s", verifrt.JSONKey(ops[:i+1])), desc, vf07Replay{uint64(tempMappingAddr), ops[:i+1]})
									break
								}
							}
						}
					}
				}
			}
		}
	}
	run.Finish(allComplete, fmt.Sprintf("all operation sequences of length <= %d from 4 start cursors over 18 cursor-relative sizes x {reserve, map-region, identity-map} x map-failure points; plus regions of 511..1537 pages after reservations of 0..513 pages, complete and failing at call 600", depth),
		"BFS over (cursor, lowest returned address); every transition calls the real function; a state is non-trivial/distinct by its (cursor, lowest) pair")
}
