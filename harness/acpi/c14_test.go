//go:build verif
// +build verif

package acpi

// C14 — only checksum-valid ACPI tables are registered, found via the right
// root pointer. Bounded-exhaustive enumeration of firmware memory images in a
// sub-4GiB arena (so 32-bit root-table entries can hold host addresses): root
// pointer slot x revision x decoys x table orders x corruption subsets x DSDT
// pointer variants, through the real probe + DriverInit.

import (
	"bytes"
	"fmt"
	"runtime/debug"
	"sort"
	"strings"
	"syscall"
	"testing"
	"unsafe"

	"github.com/ProjectSerenity/firefly/kernel"
	"github.com/ProjectSerenity/firefly/kernel/device/acpi/table"
	"github.com/ProjectSerenity/firefly/kernel/internal/verifrt"
	"github.com/ProjectSerenity/firefly/kernel/mm"
	"github.com/ProjectSerenity/firefly/kernel/mm/vmm"
)

type vf14Case struct {
	WinSlots    int   `json:"window_slots,omitempty"` // length of the search window in 16-byte slots (default 12)
	Rev         byte  `json:"revision"`
	Slot        int   `json:"slot"`  // 16-byte slot of the root pointer inside the search window
	Decoy       int   `json:"decoy"` // bit0: decoy before, bit1: decoy after
	Order       []int `json:"order"` // indices into {APIC,HPET,SSDT,FACP}
	Corrupt     int   `json:"corrupt_mask"`
	DsdtCorrupt bool  `json:"dsdt_corrupt"`
	DsdtBoth    bool  `json:"dsdt_both_pointers"`
	RealWindow  bool  `json:"real_window"` // the BIOS area 0xe0000-0xfffff itself
	NoPointer   bool  `json:"no_valid_pointer"`
	DecoyOtherRev bool `json:"decoy_of_other_revision"` // the bad-checksum structures carry the other revision than the genuine pointer
	// BigLen > 0: the SSDT is BigLen bytes long and its body is filled with BigFill (checksum arithmetic over long runs of
	// large byte values); BigDsdt: the same for the DSDT
	BigLen  int  `json:"big_table_length,omitempty"`
	BigFill byte `json:"big_table_fill,omitempty"`
	BigDsdt bool `json:"big_dsdt,omitempty"`
	DecoyExt    bool  `json:"decoy_corrupt_in_extended_part"` // revision>=2: the bad-checksum structures are corrupted in bytes 20..35 only (their first 20 bytes still sum to zero)
}

var vf14Sigs = []string{"APIC", "HPET", "SSDT", "FACP"}

func vfCsum(b []byte) byte {
	var s byte
	for _, x := range b {
		s += x
	}
	return s
}

type vf14Env struct {
	mem      []byte
	base     uintptr
	win      []byte // the search window
	winBase  uintptr
	winSlots int
	real     []byte // mapping of 0xe0000..0xfffff if available
}

func (e *vf14Env) run(run *verifrt.Run, c vf14Case) {
	if c.WinSlots == 0 && e.winSlots != 12 && !c.RealWindow {
		c.WinSlots = e.winSlots
	}
	run.Case()
	report := func(class, msg string) {
		run.Violate(class, class+" "+verifrt.JSONKey(c), fmt.Sprintf("%s: %s", verifrt.JSONKey(c), msg), c)
	}
	mem, base := e.mem, e.base
	win, winBase, winSlots := e.win, e.winBase, e.winSlots
	if c.WinSlots != 0 {
		winSlots = c.WinSlots
	}
	if c.RealWindow {
		win, winBase, winSlots = e.real, 0xe0000, 0x20000/16
		rsdpLocationLow, rsdpLocationHi = 0xe0000, 0xfffff
	} else {
		rsdpLocationLow = winBase
		rsdpLocationHi = winBase + uintptr(winSlots)*16 - 1
	}
	for i := range win {
		win[i] = 0
	}
	sizeofHdr := int(unsafe.Sizeof(table.SDTHeader{}))
	mkTable := func(off int, sig string, length int, rev byte, fill func(b []byte)) uintptr {
		b := mem[off : off+length]
		for i := range b {
			b[i] = byte(i*3 + 1)
		}
		copy(b[0:4], sig)
		*(*uint32)(unsafe.Pointer(&b[4])) = uint32(length)
		b[8] = rev
		if fill != nil {
			fill(b)
		}
		b[9] = 0
		b[9] = -vfCsum(b)
		return base + uintptr(off)
	}
	off := 8192
	bigFill := func(b []byte) {
		for i := sizeofHdr; i < len(b); i++ {
			b[i] = c.BigFill
		}
	}
	dsdtLen := 64
	var dsdtFill func([]byte)
	if c.BigDsdt && c.BigLen > 0 {
		dsdtLen, dsdtFill = c.BigLen, bigFill
	}
	dsdt := mkTable(off, "DSDT", dsdtLen, 2, dsdtFill)
	off += (dsdtLen + 15) &^ 15
	if c.DsdtCorrupt {
		mem[8192+dsdtLen-1] ^= 0x55
	}
	var addrs []uintptr
	exp := map[string]uintptr{}
	var expSkipped []string
	for k, i := range c.Order {
		length := sizeofHdr + 8 + 4*i
		fill := func(b []byte) {}
		if vf14Sigs[i] == "FACP" {
			length = int(unsafe.Sizeof(table.FADT{}))
			fill = func(b []byte) {
				f := (*table.FADT)(unsafe.Pointer(&b[0]))
				f.Dsdt, f.Ext.Dsdt = 0, 0
				if c.Rev == 0 || c.DsdtBoth {
					f.Dsdt = uint32(dsdt)
				}
				if c.Rev != 0 || c.DsdtBoth {
					f.Ext.Dsdt = uint64(dsdt)
				}
			}
		}
		if vf14Sigs[i] == "SSDT" && c.BigLen > 0 && !c.BigDsdt {
			length, fill = c.BigLen, bigFill
		}
		a := mkTable(off, vf14Sigs[i], length, 1, fill)
		if c.Corrupt&(1<<uint(k)) != 0 {
			mem[off+length-1] ^= 0x11
			expSkipped = append(expSkipped, vf14Sigs[i])
		} else {
			exp[vf14Sigs[i]] = a
			if vf14Sigs[i] == "FACP" {
				if c.DsdtCorrupt {
					expSkipped = append(expSkipped, "DSDT")
				} else {
					exp["DSDT"] = dsdt
				}
			}
		}
		addrs = append(addrs, a)
		off += (length + 15) &^ 15
	}
	entW, rootSig := 4, "RSDT"
	if c.Rev != 0 {
		entW, rootSig = 8, "XSDT"
	}
	root := mkTable(off, rootSig, sizeofHdr+entW*len(addrs), c.Rev, func(b []byte) {
		for k, a := range addrs {
			if entW == 4 {
				*(*uint32)(unsafe.Pointer(&b[sizeofHdr+4*k])) = uint32(a)
			} else {
				*(*uint64)(unsafe.Pointer(&b[sizeofHdr+8*k])) = uint64(a)
			}
		}
	})
	mkRsdp := func(slot int, good bool) {
		rev := c.Rev
		if !good && c.DecoyOtherRev {
			rev = 2 - c.Rev
		}
		b := win[slot*16 : slot*16+40]
		for i := range b {
			b[i] = 0
		}
		copy(b, "RSD PTR ")
		copy(b[9:15], "GOPHER")
		b[15] = rev
		*(*uint32)(unsafe.Pointer(&b[16])) = uint32(root)
		if rev != 0 {
			*(*uint32)(unsafe.Pointer(&b[20])) = 36
			*(*uint64)(unsafe.Pointer(&b[24])) = uint64(root)
			b[8] = -vfCsum(b[:20])
			b[32] = -vfCsum(b[:36])
			// the driver sums the Go struct's 40 bytes: the 4 bytes after the 36-byte structure stay zero (DESIGN.md C14)
		} else {
			b[8] = -vfCsum(b[:20])
			if !good && c.DecoyOtherRev {
				// a revision-0 structure in front of a revision-2 pointer: what follows its 20 bytes is not part of it
				for i := 20; i < 36; i++ {
					b[i] = byte(0x31 + i)
				}
			}
		}
		if !good {
			if c.DecoyExt && rev != 0 {
				b[33] ^= 0x40 // reserved byte of the extended part: the 20-byte checksum stays valid, the extended one does not
			} else {
				b[9] ^= 0x40
			}
		}
	}
	const need = 3 // slots one pointer structure occupies
	if c.Decoy&1 != 0 && c.Slot-need >= 0 {
		mkRsdp(c.Slot-need, false)
	}
	if c.Decoy&2 != 0 && (c.Slot+need)*16+40 <= winSlots*16 {
		mkRsdp(c.Slot+need, false)
	}
	mkRsdp(c.Slot, !c.NoPointer)
	if c.Rev == 0 && !c.NoPointer {
		// whatever follows a revision-0 structure does not belong to it
		for i := 20; i < 32 && c.Slot*16+i < len(win); i++ {
			win[c.Slot*16+i] = byte(0x57 + i)
		}
	}

	var pan interface{}
	func() {
		defer func() { pan = recover() }()
		drv := probeForACPI()
		if c.NoPointer {
			if drv != nil {
				report("bad-pointer-accepted", "hardware detection accepted a root pointer whose checksum is invalid")
			}
			return
		}
		if drv == nil {
			report("pointer-not-found", fmt.Sprintf("the checksum-valid root pointer at slot %d was not found", c.Slot))
			return
		}
		d := drv.(*acpiDriver)
		if d.rsdtAddr != root || d.useXSDT != (c.Rev != 0) {
			report("wrong-root-table", fmt.Sprintf("root table %#x (64-bit=%v), expected %#x (64-bit=%v)", d.rsdtAddr, d.useXSDT, root, c.Rev != 0))
			return
		}
		var w bytes.Buffer
		if err := d.DriverInit(&w); err != nil {
			report("enumeration-stopped", "DriverInit failed: "+err.Message)
			return
		}
		got := map[string]uintptr{}
		for k, v := range d.tableMap {
			got[k] = uintptr(unsafe.Pointer(v))
		}
		if fmt.Sprint(got) != fmt.Sprint(exp) {
			report("table-map", fmt.Sprintf("registered tables %v, expected %v (registered iff the table's bytes sum to zero)", vfFmtMap(got), vfFmtMap(exp)))
		}
		// "reported": the bring-up output names every skipped table (the wording is the driver's business; a skipped
		// table is not registered, so nothing else prints its signature)
		out := w.String()
		var unreported []string
		for _, sig := range expSkipped {
			if !strings.Contains(out, sig) {
				unreported = append(unreported, sig)
			}
		}
		if len(unreported) != 0 {
			sort.Strings(unreported)
			report("skip-report", fmt.Sprintf("tables %v have a bad checksum and were skipped, but the output never mentions them: %q", unreported, out))
		}
		// the same driver object initialised again after the firmware image changed: the root table now lists only
		// a prefix of the tables. Differential oracle: the re-initialised driver must register exactly what a freshly
		// probed driver registers on the new image (no state may survive from the first enumeration).
		for k := len(addrs) - 1; k >= 1 && k >= len(addrs)-2; k-- {
			mkTable(off, rootSig, sizeofHdr+entW*k, c.Rev, func(b []byte) {
				for i, a := range addrs[:k] {
					if entW == 4 {
						*(*uint32)(unsafe.Pointer(&b[sizeofHdr+4*i])) = uint32(a)
					} else {
						*(*uint64)(unsafe.Pointer(&b[sizeofHdr+8*i])) = uint64(a)
					}
				}
			})
			fresh, _ := probeForACPI().(*acpiDriver)
			if fresh == nil {
				break
			}
			var w1, w2 bytes.Buffer
			e1, e2 := fresh.DriverInit(&w1), d.DriverInit(&w2)
			if (e1 == nil) != (e2 == nil) {
				report("reinit-differs", fmt.Sprintf("root table cut to %d entries: a fresh driver returns %v, the re-initialised one %v", k, e1, e2))
				break
			}
			a, b := map[string]uintptr{}, map[string]uintptr{}
			for n, v := range fresh.tableMap {
				a[n] = uintptr(unsafe.Pointer(v))
			}
			for n, v := range d.tableMap {
				b[n] = uintptr(unsafe.Pointer(v))
			}
			if fmt.Sprint(a) != fmt.Sprint(b) {
				report("reinit-differs", fmt.Sprintf("root table cut to %d entries: a fresh driver registers %v, the same driver initialised again registers %v", k, vfFmtMap(a), vfFmtMap(b)))
				break
			}
		}
	}()
	if pan != nil {
		report("panic", fmt.Sprint(pan))
	}
	run.Distinct(fmt.Sprintf("rev%d n%d c%b d%v", c.Rev, len(c.Order), c.Corrupt, c.DsdtCorrupt))
}

func vfFmtMap(m map[string]uintptr) string {
	var ks []string
	for k := range m {
		ks = append(ks, k)
	}
	sort.Strings(ks)
	return strings.Join(ks, ",")
}

func TestVerifC14(t *testing.T) {
	run := verifrt.Start("C14")
	debug.SetPanicOnFault(true) // following a garbage table address must surface as a recoverable panic
	r, _, e := syscall.Syscall6(syscall.SYS_MMAP, 0, 64*4096, syscall.PROT_READ|syscall.PROT_WRITE, syscall.MAP_PRIVATE|syscall.MAP_ANON|0x40 /* MAP_32BIT */, ^uintptr(0), 0)
	if e != 0 {
		t.Fatal(e)
	}
	env := &vf14Env{base: r, winBase: r, winSlots: 12}
	if run.Thorough() {
		env.winSlots = 24 // thorough: a search window twice as long (recorded in every case, so replays use the same)
	}
	env.mem = *(*[]byte)(unsafe.Pointer(&struct {
		p    uintptr
		l, c int
	}{r, 64 * 4096, 64 * 4096}))
	env.win = env.mem[:24*16+64]
	// the real BIOS area, if the host lets us map it
	if rr, _, e2 := syscall.Syscall6(syscall.SYS_MMAP, 0xe0000, 0x20000+4096, syscall.PROT_READ|syscall.PROT_WRITE, syscall.MAP_PRIVATE|syscall.MAP_ANON|0x100000 /* MAP_FIXED_NOREPLACE */, ^uintptr(0), 0); e2 == 0 && rr == 0xe0000 {
		env.real = *(*[]byte)(unsafe.Pointer(&struct {
			p    uintptr
			l, c int
		}{rr, 0x20000 + 4096, 0x20000 + 4096}))
	} else {
		run.Note("the host does not allow mapping 0xe0000-0xfffff; the shipped window bounds are not exercised in this run")
	}
	sMap, sUnmap, sIdent := mapFn, unmapFn, identityMapFn
	sLo, sHi, sAl := rsdpLocationLow, rsdpLocationHi, rsdpAlignment
	defer func() {
		mapFn, unmapFn, identityMapFn = sMap, sUnmap, sIdent
		rsdpLocationLow, rsdpLocationHi, rsdpAlignment = sLo, sHi, sAl
	}()
	mapFn = func(mm.Page, mm.Frame, vmm.PageTableEntryFlag) *kernel.Error { return nil }
	unmapFn = func(mm.Page) *kernel.Error { return nil }
	identityMapFn = func(f mm.Frame, _ uintptr, _ vmm.PageTableEntryFlag) (mm.Page, *kernel.Error) { return mm.Page(f), nil }

	var rp vf14Case
	if run.Replaying(&rp) {
		if rp.RealWindow && env.real == nil {
			run.Note("cannot replay a real-window case on this host")
		} else {
			env.run(run, rp)
		}
		run.Finish(true, "replay", "replay")
		return
	}
	var orders [][]int
	for mask := 0; mask < 16; mask++ {
		var sel []int
		for i := 0; i < 4; i++ {
			if mask&(1<<uint(i)) != 0 {
				sel = append(sel, i)
			}
		}
		if len(sel) > 3 && !run.Thorough() {
			continue
		}
		verifrt.Permutations(len(sel), func(p []int) bool {
			var o []int
			for _, i := range p {
				o = append(o, sel[i])
			}
			orders = append(orders, o)
			return true
		})
	}
	idx := 0
	for _, rev := range []byte{0, 2} {
		structLen := 20
		if rev != 0 {
			structLen = 40
		}
		for slot := 0; slot*16+structLen <= env.winSlots*16; slot++ {
			for decoy := 0; decoy < 4; decoy++ {
				idx++
				if !run.Mine(idx) {
					continue
				}
				for _, ord := range orders {
					hasFadt := false
					for _, i := range ord {
						if vf14Sigs[i] == "FACP" {
							hasFadt = true
						}
					}
					for corrupt := 0; corrupt < 1<<uint(len(ord)); corrupt++ {
						for _, dc := range []bool{false, true} {
							for _, both := range []bool{false, true} {
								if !hasFadt && (dc || both) {
									continue
								}
								c := vf14Case{Rev: rev, Slot: slot, Decoy: decoy, Order: ord, Corrupt: corrupt, DsdtCorrupt: dc, DsdtBoth: both}
								run.Sample(c)
								env.run(run, c)
							}
						}
					}
				}
				// only decoys / a corrupted pointer: nothing may be accepted
				env.run(run, vf14Case{Rev: rev, Slot: slot, Decoy: decoy, NoPointer: true})
				// bad-checksum structures of the other revision in front of / behind the genuine pointer
				for _, ord := range orders {
					if len(ord) <= 1 {
						env.run(run, vf14Case{Rev: rev, Slot: slot, Decoy: decoy, Order: ord, DecoyOtherRev: true})
						env.run(run, vf14Case{Rev: rev, Slot: slot, Decoy: decoy, Order: ord, DecoyOtherRev: true, DecoyExt: true})
					}
				}
				if rev != 0 {
					// structures whose corruption is confined to the extended part
					env.run(run, vf14Case{Rev: rev, Slot: slot, Decoy: decoy, NoPointer: true, DecoyExt: true})
					for _, ord := range orders {
						if len(ord) <= 2 {
							env.run(run, vf14Case{Rev: rev, Slot: slot, Decoy: decoy, Order: ord, Corrupt: 1 & (1<<uint(len(ord)) - 1), DecoyExt: true})
						}
					}
				}
			}
		}
	}
	// long tables: the byte sum over runs of large values (2 KiB .. 200 KB, constant fills), valid and corrupted, as a
	// listed table and as the DSDT
	for _, rev := range []byte{0, 2} {
		for _, n := range []int{2047, 2048, 2049, 4096, 4099, 8192, 65536 + 3, 200000} {
			idx++
			if !run.Mine(idx) {
				continue
			}
			for _, fillB := range []byte{0x00, 0x7f, 0x80, 0xa5, 0xff} {
				for corrupt := 0; corrupt < 2; corrupt++ {
					env.run(run, vf14Case{Rev: rev, Slot: 1, Order: []int{2}, Corrupt: corrupt, BigLen: n, BigFill: fillB})
					env.run(run, vf14Case{Rev: rev, Slot: 1, Order: []int{0, 2, 1}, Corrupt: corrupt << 1, BigLen: n, BigFill: fillB})
					env.run(run, vf14Case{Rev: rev, Slot: 1, Order: []int{3, 1}, DsdtCorrupt: corrupt == 1, BigLen: n, BigFill: fillB, BigDsdt: true})
				}
			}
		}
	}
	if env.real != nil && run.Shard == 0 {
		for _, rev := range []byte{0, 2} {
			structLen := 20
			if rev != 0 {
				structLen = 40
			}
			last := (0x20000 - structLen) / 16
			for _, slot := range []int{0, 1, 4095, last - 1, last} {
				for _, decoy := range []int{0, 3} {
					env.run(run, vf14Case{Rev: rev, Slot: slot, Decoy: decoy, Order: []int{3, 0}, Corrupt: 2, RealWindow: true})
					env.run(run, vf14Case{Rev: rev, Slot: slot, Decoy: decoy, NoPointer: true, RealWindow: true})
				}
			}
		}
		run.Count("real_window_cases", 40)
	}
	run.Finish(true, fmt.Sprintf("2 revisions x every admissible 16-byte slot of a %d-slot search window x", env.winSlots)+" 4 decoy layouts x every order of <=3 (thorough: 4) of {APIC,HPET,SSDT,FACP} x every corruption subset x DSDT {valid,corrupt} x {one, both} DSDT pointers; root pointer with a bad checksum only; bad-checksum structures corrupted in the first 20 bytes or (revision 2) in the extended part only, of the same or of the other revision than the genuine pointer; arbitrary bytes behind a revision-0 structure; listed tables and DSDTs of 2047..200000 bytes filled with {00,7f,80,a5,ff}, valid and corrupted; first/last admissible slots of the real BIOS area 0xe0000-0xfffff; after every case the same driver is initialised again on the image with its root table cut to n-1 and n-2 entries and compared with a freshly probed driver",
		"distinct = (revision, table count, corruption mask, DSDT state)")
}
