//go:build verif
// +build verif

package sync

import (
	"runtime"
	"unsafe"

	vs "github.com/ProjectSerenity/firefly/kernel/internal/verifsched"
)

// archAcquireSpinlock runs the text of spinlock_amd64.s (embedded by the
// driver from /repo's current working tree as verifSpinlockAsm) on the x86mini
// interpreter, against the real lock word.
var verifProg *vs.Program

// Not inlinable: the interpreter reaches the lock word through an integer address, which the compiler cannot see; a
// real call that takes the pointer makes it reload the word afterwards.
//
//go:noinline
func archAcquireSpinlock(state *uint32, attemptsBeforeYielding uint32) {
	if verifProg == nil {
		vs.AsmConsts = verifAsmConsts
		verifProg = vs.ParseAsm(verifSpinlockAsm, "archAcquireSpinlock")
	}
	var frame [16]byte
	*(*uintptr)(unsafe.Pointer(&frame[0])) = uintptr(unsafe.Pointer(state))
	*(*uint32)(unsafe.Pointer(&frame[8])) = attemptsBeforeYielding
	verifProg.Run(frame[:], map[string]uintptr{"yieldFn": uintptr(unsafe.Pointer(&yieldFn))})
	runtime.KeepAlive(state)
}

// VerifSetYield lets harnesses in other packages (C09) choose the yield function.
func VerifSetYield(f func()) { yieldFn = f }
