//go:build verif
// +build verif

package sync

import (
	"unsafe"

	vs "github.com/ProjectSerenity/firefly/kernel/internal/verifsched"
)

// archAcquireSpinlock runs the text of spinlock_amd64.s (embedded by the
// driver from /repo's current working tree as verifSpinlockAsm) on the x86mini
// interpreter, against the real lock word.
var verifProg *vs.Program

func archAcquireSpinlock(state *uint32, attemptsBeforeYielding uint32) {
	if verifProg == nil {
		verifProg = vs.ParseAsm(verifSpinlockAsm, "archAcquireSpinlock")
	}
	var frame [16]byte
	*(*uintptr)(unsafe.Pointer(&frame[0])) = uintptr(unsafe.Pointer(state))
	*(*uint32)(unsafe.Pointer(&frame[8])) = attemptsBeforeYielding
	verifProg.Run(frame[:], map[string]uintptr{"yieldFn": uintptr(unsafe.Pointer(&yieldFn))})
}

// VerifSetYield lets harnesses in other packages (C09) choose the yield function.
func VerifSetYield(f func()) { yieldFn = f }
