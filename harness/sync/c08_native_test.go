//go:build verif
// +build verif

package sync

// C08, binding the interpreter to the hardware: this file is compiled in a
// plain build (the real sync/atomic, the assembled spinlock_amd64.s). Every
// sequential trace of length <=6 over {Acquire-when-free, TryToAcquire,
// Release} is run on the assembled routine and compared with the sequential
// lock model; the interpreted build (c08_seq_test.go) runs the same traces
// against the same model, so the two agree on every trace. A free-running
// 16-thread run of the critical-section body on the real assembly is a
// sampled supplement: its silence proves nothing, a violation it observes is
// real.

import (
	"fmt"
	"runtime"
	gosync "sync"
	"testing"
	"time"

	"github.com/ProjectSerenity/firefly/kernel/internal/verifrt"
)

var vfLockSink *Spinlock // forces the locks of the sequential traces onto the heap

// vfSeqTraces enumerates the traces and checks each against the model.
func vfSeqTraces(run *verifrt.Run, maxLen int, label string) {
	ops := []byte{'A', 'T', 'R'}
	var rec func(trace []byte)
	rec = func(trace []byte) {
		if len(trace) > 0 {
			// heap-allocated (the interpreted build reaches the lock word through an integer address, which a moving
			// goroutine stack would invalidate)
			l := new(Spinlock)
			vfLockSink = l
			model := uint32(0)
			run.Case()
			run.Traces++
			verifrt.JournalJSON(map[string]string{"trace": string(trace)})
			for i, o := range trace {
				switch o {
				case 'A':
					if model == 1 {
						continue // a blocking acquire of a held lock would spin forever in a sequential trace
					}
					l.Acquire()
					model = 1
				case 'T':
					got := l.TryToAcquire()
					if got != (model == 0) {
						run.Violate("sequential-trace", label+" "+string(trace[:i+1]), fmt.Sprintf("%s: trace %s: TryToAcquire returned %v with the lock %s", label, trace[:i+1], got, map[uint32]string{0: "free", 1: "held"}[model]), map[string]string{"trace": string(trace[:i+1])})
						return
					}
					model = 1
				case 'R':
					l.Release()
					model = 0
				}
				// the lock's state is compared through its behaviour, not its representation: a copy of the lock can be
				// taken by TryToAcquire iff the model says it is free
				probe := new(Spinlock)
				vfLockSink = probe
				*probe = *l
				if got := probe.TryToAcquire(); got != (model == 0) {
					run.Violate("sequential-trace", label+" "+string(trace[:i+1]), fmt.Sprintf("%s: trace %s: the lock behaves as %s (a try-acquire on a copy returned %v), the model says %s", label, trace[:i+1], map[bool]string{true: "free", false: "held"}[got], got, map[uint32]string{0: "free", 1: "held"}[model]), map[string]string{"trace": string(trace[:i+1])})
					return
				}
			}
			run.Distinct(fmt.Sprintf("%s->%d", trace, model))
		}
		if len(trace) == maxLen {
			return
		}
		for _, o := range ops {
			rec(append(append([]byte{}, trace...), o))
		}
	}
	rec(nil)
}

func TestVerifC08Native(t *testing.T) {
	run := verifrt.Start("C08")
	saved := yieldFn
	defer func() { yieldFn = saved }()
	yieldFn = runtime.Gosched
	var rp map[string]string
	if run.Replaying(&rp) {
		if tr := rp["trace"]; tr != "" && tr != "stress" {
			// a journalled trace (the worker hung or died in it): run exactly that one
			l := new(Spinlock)
			vfLockSink = l
			held := false
			verifrt.JournalJSON(rp)
			for _, o := range tr {
				switch o {
				case 'A':
					if !held {
						l.Acquire()
						held = true
					}
				case 'T':
					if l.TryToAcquire() {
						held = true
					}
				case 'R':
					l.Release()
					held = false
				}
			}
			verifrt.JournalClear()
		}
		vfSeqTraces(run, 6, "assembled")
		run.Finish(true, "replay", "replay (all sequential traces re-run)")
		return
	}
	vfSeqTraces(run, 6, "assembled")
	verifrt.JournalClear()
	// sampled supplement: 16 OS threads on the real assembly
	var l Spinlock
	var wg gosync.WaitGroup
	holders, shared, bad := 0, 0, 0
	iters := 3000
	if run.Thorough() {
		iters = 40000
	}
	workers := 16
	for i := 0; i < workers; i++ {
		wg.Add(1)
		go func(id int) {
			runtime.LockOSThread()
			defer wg.Done()
			for k := 0; k < iters; k++ {
				if k%3 == 2 {
					if !l.TryToAcquire() {
						continue
					}
				} else {
					l.Acquire()
				}
				holders++
				if holders != 1 {
					bad++
				}
				shared++
				holders--
				l.Release()
			}
		}(i)
	}
	finished := make(chan struct{})
	go func() { wg.Wait(); close(finished) }()
	select {
	case <-finished:
	case <-time.After(45 * time.Second):
		// sampling supplement only: a stalled free-running run is reported, never a verdict by itself
		run.Note("the free-running 16-thread supplement did not finish within 45 s (stalled or starved); not a verdict")
		run.Finish(false, "sequential traces complete; free-running supplement abandoned", "conformance of the assembled routine with the sequential lock model")
		return
	}
	run.Count("stress_critical_sections_sampled", int64(shared))
	if bad != 0 {
		run.Violate("mutual-exclusion", "native-stress", fmt.Sprintf("free-running run on the assembled spinlock: %d critical sections observed another holder", bad), map[string]string{"trace": "stress"})
	}
	run.Note("native part: %d sequential traces on the assembled routine agree with the lock model; 16-thread free-running supplement (sampling, not the verdict)", run.Traces)
	run.Finish(true, "all sequential traces of length <=6 over {Acquire-when-free, TryToAcquire, Release} on the assembled routine", "conformance of the assembled routine with the sequential lock model")
}
