//go:build verif
// +build verif

package sync

// C08 — spinlock: mutual exclusion, try-acquire never lies. The real Go
// methods (compiled against the atomic shim) and the real text of
// spinlock_amd64.s (run by the x86mini interpreter) operate on the real lock
// word under the controlled scheduler; all interleavings are explored with
// iterative preemption bounding and with an unbounded state-pruned pass.

import (
	"fmt"
	"strings"
	"testing"
	"unsafe"

	"github.com/ProjectSerenity/firefly/kernel/internal/verifrt"
	vs "github.com/ProjectSerenity/firefly/kernel/internal/verifsched"
)

// Per-thread phases of the lock protocol as the harness sees it. A call takes effect at some moment between its
// invocation and its return (it may consist of several atomic steps), so the judgements below are the linearizability
// ones: they only use what is certain from invocations and returns.
const (
	phIdle    = iota
	phAcquire // inside a blocking Acquire call
	phTry     // inside a TryToAcquire call
	phHolding // from the return of a successful acquire/try to the return of the Release call
)

type vf08Pending struct {
	Tid   int
	Cands uint64 // calls of other threads that overlapped the failed try and have not returned yet
}

type vf08World struct {
	l       Spinlock
	holders int
	owner   int // thread between the return of its successful acquire and the invocation of its release, -1 none
	shared  int
	done    int
	lie     string
	n       int
	tries   []int // per-thread: number of failed try-acquires
	phase   []int
	// for a TryToAcquire in progress: did another thread hold the lock at some moment of the call so far, and which
	// calls of other threads (that may still take the lock) overlapped it
	sawHeld []bool
	cands   []uint64
	// failed tries that nobody is known to justify yet: one of the overlapping calls must turn out to have taken the lock
	pending []vf08Pending
}

func (w *vf08World) reset() {
	n := w.n
	*w = vf08World{owner: -1, n: n, tries: make([]int, n), phase: make([]int, n), sawHeld: make([]bool, n), cands: make([]uint64, n)}
}

// enter records that tid starts a call (ph) or starts holding the lock: every TryToAcquire in progress overlaps it.
func (w *vf08World) enter(tid, ph int) {
	w.phase[tid] = ph
	for i := range w.phase {
		if i == tid || w.phase[i] != phTry {
			continue
		}
		if ph == phHolding {
			w.sawHeld[i] = true
		} else {
			w.cands[i] |= 1 << uint(tid)
		}
	}
	if ph == phTry {
		w.sawHeld[tid], w.cands[tid] = false, 0
		for i, p := range w.phase {
			switch {
			case i == tid:
			case p == phHolding:
				w.sawHeld[tid] = true
			case p == phAcquire || p == phTry:
				w.cands[tid] |= 1 << uint(i)
			}
		}
	}
}

// returned records that tid's call returned; acquired says whether it took the lock. A call that took the lock justifies
// every failed try it overlapped; one that did not is struck from their candidate lists, and a failed try left without
// any candidate was a lie.
func (w *vf08World) returned(tid int, acquired bool) {
	bit := uint64(1) << uint(tid)
	var keep []vf08Pending
	for _, p := range w.pending {
		switch {
		case p.Cands&bit == 0:
			keep = append(keep, p)
		case acquired:
			// justified
		default:
			p.Cands &^= bit
			if p.Cands == 0 {
				if w.lie == "" {
					w.lie = fmt.Sprintf("TryToAcquire returned false to T%d although nobody held the lock at any moment of the call", p.Tid)
				}
			} else {
				keep = append(keep, p)
			}
		}
	}
	w.pending = keep
	for i := range w.phase {
		if i != tid && w.phase[i] == phTry && w.cands[i]&bit != 0 {
			if acquired {
				w.sawHeld[i] = true
			}
			w.cands[i] &^= bit
		}
	}
}

func (w *vf08World) cs(tid int) {
	w.holders++
	vs.Access(uintptr(unsafe.Pointer(&w.shared)), false)
	v := w.shared
	vs.Step(0x7000) // a schedule point inside the critical section
	vs.Access(uintptr(unsafe.Pointer(&w.shared)), true)
	w.shared = v + 1
	w.done++
	w.holders--
}

func (w *vf08World) prog(tid int, ops string) func() {
	return func() {
		for i, o := range ops {
			vs.Progress(i + 1)
			switch o {
			case 'A':
				w.enter(tid, phAcquire)
				w.l.Acquire()
				if w.owner != -1 && w.lie == "" {
					w.lie = fmt.Sprintf("Acquire returned to T%d while T%d holds the lock", tid, w.owner)
				}
				w.returned(tid, true)
				w.enter(tid, phHolding)
				w.owner = tid
				w.cs(tid)
				w.owner = -1 // from the invocation of Release on, the lock may already be free
				w.l.Release()
				w.phase[tid] = phIdle
			case 'T':
				w.enter(tid, phTry)
				ok := w.l.TryToAcquire()
				w.returned(tid, ok)
				if ok {
					if w.owner != -1 && w.lie == "" {
						w.lie = fmt.Sprintf("TryToAcquire returned true to T%d while T%d holds the lock", tid, w.owner)
					}
					w.enter(tid, phHolding)
					w.owner = tid
					w.cs(tid)
					w.owner = -1
					w.l.Release()
					w.phase[tid] = phIdle
				} else {
					w.phase[tid] = phIdle
					w.tries[tid]++
					switch {
					case w.sawHeld[tid]:
					case w.cands[tid] != 0:
						w.pending = append(w.pending, vf08Pending{tid, w.cands[tid]})
					case w.lie == "":
						w.lie = fmt.Sprintf("TryToAcquire returned false to T%d although nobody held the lock at any moment of the call", tid)
					}
				}
			case 'R': // release of a free lock (single-thread scenarios only): no effect
				w.l.Release()
				probe := new(Spinlock) // still free afterwards: judged by a try-acquire on a copy
				*probe = w.l
				vs.Unscheduled(func() {
					if !probe.TryToAcquire() && w.lie == "" {
						w.lie = "Release of a free lock changed its state: the lock can no longer be taken"
					}
				})
			}
		}
		vs.Progress(99)
	}
}

type vf08Replay struct {
	Progs    []string `json:"progs"`
	Yield    bool     `json:"yield"`
	Bound    int      `json:"bound"`
	Schedule []int    `json:"schedule"` // choice index at every scheduling point
}

func vf08Setup(w *vf08World, progs []string, yield bool) (func() []func(), *vs.Sched) {
	if yield {
		yieldFn = func() { vs.Step(0x8000) }
	} else {
		yieldFn = nil
	}
	w.n = len(progs)
	mk := func() []func() {
		w.reset()
		var bs []func()
		for i, p := range progs {
			bs = append(bs, w.prog(i, p))
		}
		return bs
	}
	s := &vs.Sched{}
	s.StateFn = func() string {
		return fmt.Sprintf("%v,%d,%d,%d,%d,%v,%v,%v,%v", w.l, w.holders, w.shared, w.done, w.owner, w.tries, w.phase, w.sawHeld, w.cands, w.pending)
	}
	s.Monitor = func() string {
		if w.holders > 1 {
			return "mutual exclusion violated: two tasks are inside the lock"
		}
		return w.lie
	}
	s.MaxSteps = 20000
	return mk, s
}

func vf08Final(w *vf08World, nCS int) string {
	if w.shared != w.done {
		return fmt.Sprintf("lost update: %d critical sections completed but the protected counter is %d", w.done, w.shared)
	}
	final := new(Spinlock) // judged by behaviour, not by the value of the lock word
	*final = w.l
	if !final.TryToAcquire() {
		return "the lock is left held after every task released it"
	}
	if w.lie != "" {
		return w.lie
	}
	return ""
}

func TestVerifC08(t *testing.T) {
	run := verifrt.Start("C08")
	saved := yieldFn
	defer func() { yieldFn = saved }()
	w := &vf08World{}
	// bind the interpreter to the current assembly text before anything else: an instruction
	// outside the supported subset must abort the check (exit 2), not look like a violation
	vs.AsmConsts = verifAsmConsts
	verifProg = vs.ParseAsm(verifSpinlockAsm, "archAcquireSpinlock")

	var rp vf08Replay
	if run.Replaying(&rp) {
		mk, s := vf08Setup(w, rp.Progs, rp.Yield)
		if rp.Bound == -2 { // the many-callers schedule
			s.MaxSteps = 20000000
		}
		x := s.Run(mk(), rp.Schedule)
		run.Case()
		msg := x.Err
		if msg == "" && x.Deadlock {
			msg = "deadlock: no task can make progress"
		}
		if msg == "" {
			msg = vf08Final(w, 0)
		}
		if msg != "" {
			run.Violate(vf08Class(msg), fmt.Sprintf("%v yield=%v %v", rp.Progs, rp.Yield, rp.Schedule), msg, rp)
		}
		run.Finish(true, "replay", "replay of one schedule")
		return
	}

	configs := [][]string{{"A", "A"}, {"A", "T"}, {"T", "T"}, {"AA", "A"}, {"AT", "TA"}, {"TT", "A"}, {"A", "A", "A"}, {"A", "T", "A"}, {"T", "T", "A"}, {"AA", "AT", "T"}, {"RTA"}, {"TRA"}, {"ARTA"}}
	bounds := []int{0, 1, 2, 3, -1}
	if run.Thorough() {
		configs = append(configs, []string{"AA", "AA", "AA"}, []string{"AT", "TA", "AT"}, []string{"ATA", "TAT"}, []string{"A", "A", "A", "A"}, []string{"A", "T", "A", "T"}, []string{"AAA", "TTT"})
		bounds = []int{0, 1, 2, 3, 4, -1}
	}
	idx := 0
	complete := true
	outcomesAll := map[string]bool{}
	for _, yield := range []bool{false, true} {
		for _, cfg := range configs {
			idx++
			if !run.Mine(idx) {
				continue
			}
			for _, bound := range bounds {
				mk, s := vf08Setup(w, cfg, yield)
				if bound < 0 {
					s.Visited = map[string]bool{}
				}
				s.Stop = run.OutOfBudget
				st := &vs.Stats{}
				outcomes := map[string]int{}
				vs.Explore(mk, bound, s, func(x *vs.Exec) string {
					outcomes[fmt.Sprintf("done=%d tries=%v", w.done, w.tries[:len(cfg)])]++
					return vf08Final(w, 0)
				}, st)
				run.Evaluations += int64(st.Executions)
				run.Transitions += int64(st.Steps)
				if bound < 0 {
					run.States += int64(len(s.Visited))
				}
				for o := range outcomes {
					outcomesAll[strings.Join(cfg, "|")+fmt.Sprint(yield)+o] = true
					run.Distinct(strings.Join(cfg, "|") + fmt.Sprint(yield) + o)
				}
				if bound == 2 || bound < 0 {
					run.ForceSample(map[string]interface{}{"threads": cfg, "yield_fn": yield, "preemption_bound": bound, "schedules": st.Executions, "steps": st.Steps, "states": len(s.Visited), "distinct_outcomes": len(outcomes)})
				}
				for _, v := range st.Violations {
					run.Violate(vf08Class(v.Msg), fmt.Sprintf("%v yield=%v %v", cfg, yield, v.Choices), fmt.Sprintf("threads=%v yieldFn=%v preemption bound %d: %s (schedule %v)", cfg, yield, bound, v.Msg, v.Threads), vf08Replay{cfg, yield, bound, v.Choices})
				}
				if st.Stopped {
					complete = false
					run.Note("time budget reached in configuration %v at preemption bound %d; lower bounds of it were completed", cfg, bound)
					break
				}
				if len(st.Violations) > 0 {
					break
				}
			}
		}
	}
	// many simultaneous callers (more than fit an 8-bit count): 257 tasks arriving together, scheduled in lock step
	// (least recently run first) - one directed schedule per yieldFn setting, judged by the same monitors
	if run.Mine(idx + 1) {
		const many = 257
		cfg := make([]string, many)
		for i := range cfg {
			cfg[i] = "A"
		}
		for _, yield := range []bool{false, true} {
			mk, s := vf08Setup(w, cfg, yield)
			s.MaxSteps = 20000000
			last := make([]int, many)
			tick := 0
			s.Policy = func(enabled []int, cur int) int {
				best := 0
				for i, e := range enabled {
					if last[e] < last[enabled[best]] {
						best = i
					}
				}
				tick++
				last[enabled[best]] = tick
				return best
			}
			x := s.Run(mk(), nil)
			run.Case()
			run.Evaluations++
			run.Transitions += int64(x.Steps)
			msg := x.Err
			if msg == "" && x.Deadlock {
				msg = "deadlock: some task is unfinished and no task can make progress"
			}
			if msg == "" {
				msg = vf08Final(w, 0)
			}
			if msg == "" && w.done != many {
				msg = fmt.Sprintf("lost update: %d of %d critical sections completed", w.done, many)
			}
			if msg != "" {
				run.Violate(vf08Class(msg), fmt.Sprintf("many-callers yield=%v", yield), fmt.Sprintf("%d tasks calling Acquire together, lock-step schedule, yieldFn=%v: %s", many, yield, msg), vf08Replay{Progs: cfg, Yield: yield, Bound: -2, Schedule: vs.Choices(x)})
			}
			run.ForceSample(map[string]interface{}{"threads": fmt.Sprintf("%d x A", many), "yield_fn": yield, "schedule": "lock step (least recently run first)", "steps": x.Steps})
		}
	}
	run.Finish(complete, fmt.Sprintf("%d thread configurations (2-3 threads, 4 in thorough; programs over A=acquire+CS+release, T=try, R=release-when-free) x yieldFn {nil, scheduler yield}: every schedule with <=%d preemptions and the unbounded state-pruned pass; plus 257 tasks acquiring together under one lock-step schedule", len(configs), bounds[len(bounds)-2]),
		"stateless DFS with iterative preemption bounding over the real Go methods + interpreted real assembly; unbounded pass prunes on (lock word, harness counters, per-thread pc/registers); distinct = (configuration, outcome vector)")
}

func vf08Class(msg string) string {
	switch {
	case strings.Contains(msg, "mutual exclusion"), strings.Contains(msg, "while T"):
		return "mutual-exclusion"
	case strings.Contains(msg, "data race"):
		return "visibility"
	case strings.Contains(msg, "deadlock"), strings.Contains(msg, "horizon"):
		return "no-progress"
	case strings.Contains(msg, "TryToAcquire"), strings.Contains(msg, "failed Try"):
		return "try-acquire-lies"
	case strings.Contains(msg, "lost update"):
		return "lost-update"
	}
	return "other"
}
