//go:build verif
// +build verif

package sync

import (
	"testing"

	"github.com/ProjectSerenity/firefly/kernel/internal/verifrt"
)

// The same sequential traces on the interpreted routine (no scheduler: hooks are no-ops without one).
func TestVerifC08Seq(t *testing.T) {
	run := verifrt.Start("C08")
	saved := yieldFn
	defer func() { yieldFn = saved }()
	yieldFn = nil
	vfSeqTraces(run, 6, "interpreted")
	run.Finish(true, "all sequential traces of length <=6 over {Acquire-when-free, TryToAcquire, Release} on the interpreted routine", "conformance of the interpreted routine with the sequential lock model")
}
