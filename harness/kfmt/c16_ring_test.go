//go:build verif
// +build verif

package kfmt

// C16 part 1 — early ring buffer and sink hand-over. Explicit-state search of
// the real ringBuffer / Printf / SetOutputSink code; for the small-scope parts
// the constant ringBufferSize is scaled to 8 and 4 by the driver (everything
// else is the real code) and the search runs to a fixed point of the
// reachable (rIndex, wIndex, sink) states. The reference is a FIFO of
// capacity size-1 that drops its oldest bytes.

import (
	"bytes"
	"fmt"
	"io"
	"strings"
	"testing"

	"github.com/ProjectSerenity/firefly/kernel/internal/verifrt"
)

type vfRingState struct {
	rb      ringBuffer
	sinkSet bool
	fifo    []byte // reference: retained bytes
	next    byte   // next label
}

type vfRingReplay struct {
	Size int      `json:"size"`
	Ops  []string `json:"ops"`
}

type vfRecorder struct{ buf bytes.Buffer }

func (r *vfRecorder) Write(p []byte) (int, error) { return r.buf.Write(p) }

func vfLabel(n *byte) byte {
	for {
		*n++
		if *n != 0 && *n != '%' {
			return *n
		}
	}
}

func vfRingOps(size int) []string {
	ops := []string{"read:1", "read:3", "read:big", "sink:rec", "sink:nil"}
	seen := map[int]bool{}
	for _, n := range []int{1, 2, 3, size - 1, size, size + 1, 2*size + 1} {
		if n > 0 && !seen[n] && n <= 6000 {
			seen[n] = true
			ops = append(ops, fmt.Sprintf("print:%d", n))
		}
	}
	return ops
}

// vfRingApply restores st into the package globals, applies op and checks.
func vfRingApply(st *vfRingState, op string) (*vfRingState, string) {
	n := &vfRingState{rb: st.rb, sinkSet: st.sinkSet, fifo: append([]byte(nil), st.fifo...), next: st.next}
	earlyPrintBuffer = st.rb
	rec := &vfRecorder{}
	if st.sinkSet {
		outputSink = rec
	} else {
		outputSink = nil
	}
	size := len(earlyPrintBuffer.buffer)
	var want []byte // what the recorder must receive during this op
	msg := ""
	var kind string
	var arg int
	fmt.Sscanf(strings.Replace(op, ":", " ", 1), "%s %d", &kind, &arg)
	switch {
	case strings.HasPrefix(op, "print:"):
		data := make([]byte, arg)
		for i := range data {
			data[i] = vfLabel(&n.next)
		}
		// split the output over several Printf calls and verbs to vary the chunking
		switch {
		case arg >= 3:
			Printf("%s", data[:1])
			Printf(string(data[1:arg-1]))
			Printf("%s", string(data[arg-1:]))
		default:
			Printf(string(data))
		}
		if st.sinkSet {
			want = data
		} else {
			n.fifo = append(n.fifo, data...)
			if len(n.fifo) > size-1 {
				n.fifo = n.fifo[len(n.fifo)-(size-1):]
			}
		}
	case strings.HasPrefix(op, "read:"):
		k := 1
		switch op {
		case "read:3":
			k = 3
		case "read:big":
			k = size + 5
		}
		buf := make([]byte, k)
		got, err := earlyPrintBuffer.Read(buf)
		if len(n.fifo) == 0 {
			if got != 0 || err != io.EOF {
				msg = fmt.Sprintf("Read on an empty buffer returned (%d, %v)", got, err)
			}
		} else {
			if got <= 0 || got > k || got > len(n.fifo) || err != nil {
				msg = fmt.Sprintf("Read(%d) with %d bytes buffered returned (%d, %v)", k, len(n.fifo), got, err)
			} else if !bytes.Equal(buf[:got], n.fifo[:got]) {
				msg = fmt.Sprintf("Read(%d) returned %v, the oldest retained bytes are %v", k, buf[:got], n.fifo[:got])
			} else {
				n.fifo = n.fifo[got:]
			}
		}
	case op == "sink:rec":
		SetOutputSink(rec)
		if !st.sinkSet || true {
			want = n.fifo // everything retained, exactly once, in order
		}
		n.fifo = nil
		n.sinkSet = true
		if GetOutputSink() != io.Writer(rec) {
			msg = "GetOutputSink does not return the sink that was set"
		}
	case op == "sink:nil":
		SetOutputSink(nil)
		n.sinkSet = false
		if GetOutputSink() != io.Writer(&earlyPrintBuffer) {
			msg = "GetOutputSink does not fall back to the early buffer"
		}
	}
	n.rb = earlyPrintBuffer
	if msg == "" && !bytes.Equal(rec.buf.Bytes(), want) {
		msg = fmt.Sprintf("%s: the sink received %d bytes %v, expected %d bytes %v", op, rec.buf.Len(), vfTrunc(rec.buf.Bytes()), len(want), vfTrunc(want))
	}
	if msg == "" {
		// physical content between rIndex and wIndex must be the reference FIFO
		var phys []byte
		if n.rb.rIndex < 0 || n.rb.rIndex >= size || n.rb.wIndex < 0 || n.rb.wIndex >= size {
			msg = fmt.Sprintf("indices out of range: r=%d w=%d", n.rb.rIndex, n.rb.wIndex)
		} else {
			for i := n.rb.rIndex; i != n.rb.wIndex; i = (i + 1) % size {
				phys = append(phys, n.rb.buffer[i])
			}
			if !bytes.Equal(phys, n.fifo) {
				msg = fmt.Sprintf("%s: buffer retains %d bytes %v, reference FIFO (capacity %d, drop oldest) holds %d bytes %v", op, len(phys), vfTrunc(phys), size-1, len(n.fifo), vfTrunc(n.fifo))
			}
		}
	}
	return n, msg
}

func vfTrunc(b []byte) []byte {
	if len(b) > 12 {
		return append(append([]byte{}, b[:6]...), b[len(b)-6:]...)
	}
	return b
}

func TestVerifC16Ring(t *testing.T) {
	run := verifrt.Start("C16")
	savedSink, savedBuf := outputSink, earlyPrintBuffer
	defer func() { outputSink, earlyPrintBuffer = savedSink, savedBuf }()
	size := ringBufferSize

	var rp vfRingReplay
	if run.Replaying(&rp) {
		if rp.Size != size {
			run.Note("replay recorded for ring size %d, this binary has %d", rp.Size, size)
		}
		st := &vfRingState{}
		for i, op := range rp.Ops {
			var msg string
			var pan interface{}
			func() {
				defer func() { pan = recover() }()
				st, msg = vfRingApply(st, op)
			}()
			run.Case()
			if pan != nil {
				msg = fmt.Sprint("panic: ", pan)
			}
			if msg != "" {
				run.Violate("ring", fmt.Sprintf("size=%d %s", size, strings.Join(rp.Ops[:i+1], " ")), msg, vfRingReplay{size, rp.Ops[:i+1]})
				break
			}
		}
		run.Finish(true, "replay", "replay")
		return
	}

	maxDepth := -1 // fixed point
	if size > 64 {
		maxDepth = 8
		if run.Thorough() {
			maxDepth = 48
		}
	}
	ops := vfRingOps(size)
	gr := &verifrt.Graph{MaxDepth: maxDepth, KeepPath: true}
	gr.Key = func(s interface{}) string {
		st := s.(*vfRingState)
		// byte labels do not influence control flow: the structural state is (rIndex, wIndex, sink)
		return fmt.Sprintf("%d/%d/%v", st.rb.rIndex, st.rb.wIndex, st.sinkSet)
	}
	gr.Succ = func(g *verifrt.Graph, id int, s interface{}, emit func(string, interface{})) {
		st := s.(*vfRingState)
		for _, op := range ops {
			var n *vfRingState
			var msg string
			var pan interface{}
			func() {
				defer func() { pan = recover() }()
				n, msg = vfRingApply(st, op)
			}()
			run.Case()
			if pan != nil {
				msg = fmt.Sprint("panic: ", pan)
			}
			hist := append(g.Path(id), op)
			if msg != "" {
				run.Violate("ring", fmt.Sprintf("size=%d %s", size, strings.Join(hist, " ")), fmt.Sprintf("ring size %d after [%s]: %s", size, strings.Join(hist, " "), msg), vfRingReplay{size, hist})
				continue
			}
			run.Distinct(fmt.Sprintf("%d:%d/%d/%v", size, n.rb.rIndex, n.rb.wIndex, n.sinkSet))
			emit(op, n)
		}
	}
	gr.Run([]interface{}{&vfRingState{}})
	run.States = gr.States
	run.Transitions = gr.Transitions
	run.Traces = gr.Transitions
	run.ForceSample(map[string]interface{}{"ring_size": size, "ops": ops, "states": gr.States, "fixed_point": gr.Complete})
	bound := fmt.Sprintf("ring size %d: fixed point of reachable (rIndex,wIndex,sink) states", size)
	if maxDepth >= 0 {
		bound = fmt.Sprintf("ring size %d (shipped): all operation histories to depth %d", size, maxDepth)
	}
	run.Finish(gr.Complete || gr.DepthCapped, bound, "BFS over the real ring buffer / Printf / SetOutputSink; state = (rIndex, wIndex, sink set); bytes carry labels so loss, duplication and reordering are observable")
}
