//go:build verif
// +build verif

package kfmt

// C15 — kernel printf: exact, bounded, allocation-free. Bounded-exhaustive
// enumeration of format strings (token sequences) x argument lists against a
// strconv-based reference formatter written from the statement; a
// non-allocating comparing sink; runtime.MemStats.Mallocs must not move
// across a whole pre-built batch (bisected to a case if it does).

import (
	"fmt"
	"runtime"
	"strconv"
	"strings"
	"testing"

	"github.com/ProjectSerenity/firefly/kernel/internal/verifrt"
)

type vfTok struct {
	lit   string // literal text or "%%"
	verb  byte   // 0 for literal
	width int    // -1 absent
}

func (t vfTok) String() string {
	if t.verb == 0 {
		return t.lit
	}
	if t.width < 0 {
		return "%" + string(t.verb)
	}
	return "%" + strconv.Itoa(t.width) + string(t.verb)
}

func vfRefInt(v interface{}, base, width int) (string, bool) {
	var neg bool
	var mag uint64
	switch x := v.(type) {
	case uint8:
		mag = uint64(x)
	case uint16:
		mag = uint64(x)
	case uint32:
		mag = uint64(x)
	case uint64:
		mag = x
	case uintptr:
		mag = uint64(x)
	case int8:
		neg, mag = x < 0, vfAbs(int64(x))
	case int16:
		neg, mag = x < 0, vfAbs(int64(x))
	case int32:
		neg, mag = x < 0, vfAbs(int64(x))
	case int64:
		neg, mag = x < 0, vfAbs(x)
	case int:
		neg, mag = x < 0, vfAbs(int64(x))
	default:
		return "", false
	}
	if width > 31 {
		width = 31
	}
	digits := strconv.FormatUint(mag, base)
	pad := byte('0')
	if base == 10 {
		pad = ' '
	}
	for len(digits) < width {
		digits = string(pad) + digits
	}
	if neg {
		if base == 10 && digits[0] == ' ' {
			i := strings.LastIndexByte(digits, ' ') // the sign takes the place of the last padding space
			digits = digits[:i] + "-" + digits[i+1:]
		} else {
			digits = "-" + digits
		}
	}
	return digits, true
}

func vfAbs(x int64) uint64 {
	if x < 0 {
		return uint64(-(x + 1)) + 1
	}
	return uint64(x)
}

func vfRefFmt(toks []vfTok, args []interface{}) string {
	var b strings.Builder
	ai := 0
	for _, t := range toks {
		if t.verb == 0 {
			if t.lit == "%%" {
				b.WriteByte('%')
			} else {
				b.WriteString(t.lit)
			}
			continue
		}
		if ai >= len(args) {
			b.WriteString("(MISSING)")
			continue
		}
		a := args[ai]
		ai++
		w := t.width
		if w < 0 {
			w = 0
		}
		switch t.verb {
		case 'd', 'x', 'o':
			base := map[byte]int{'d': 10, 'x': 16, 'o': 8}[t.verb]
			if s, ok := vfRefInt(a, base, w); ok {
				b.WriteString(s)
			} else {
				b.WriteString("%!(WRONGTYPE)")
			}
		case 's':
			switch x := a.(type) {
			case string:
				for i := len(x); i < w; i++ {
					b.WriteByte(' ')
				}
				b.WriteString(x)
			case []byte:
				for i := len(x); i < w; i++ {
					b.WriteByte(' ')
				}
				b.Write(x)
			default:
				b.WriteString("%!(WRONGTYPE)")
			}
		case 't':
			if x, ok := a.(bool); ok {
				b.WriteString(strconv.FormatBool(x))
			} else {
				b.WriteString("%!(WRONGTYPE)")
			}
		}
	}
	for ; ai < len(args); ai++ {
		b.WriteString("%!(EXTRA)")
	}
	return b.String()
}

// vfCmpSink compares what is written with the expected output without storing or allocating.
type vfCmpSink struct {
	want   string
	pos    int
	bad    bool
	badAt  int
	gotLen int
}

func (s *vfCmpSink) Write(p []byte) (int, error) {
	for _, c := range p {
		if !s.bad && (s.pos >= len(s.want) || s.want[s.pos] != c) {
			s.bad = true
			s.badAt = s.pos
		}
		s.pos++
	}
	s.gotLen += len(p)
	return len(p), nil
}

type vf15Case struct {
	Format    string   `json:"format"`
	Args      []string `json:"args"` // %#v renderings (documentation); ArgIdx is what replays
	ArgIdx    []int    `json:"arg_idx"`
	TokIdx    []int    `json:"tok_idx"`
	Early     bool     `json:"early,omitempty"` // formatted with no sink set (nil writer -> early ring buffer)
	ViaPrintf bool     `json:"via_printf,omitempty"`
}

var (
	vf15Toks []vfTok
	vf15Args []interface{}
)

func vf15Init(thorough bool) {
	widths := []int{-1, 0, 1, 5, 31, 32, 33, 1000}
	vf15Toks = []vfTok{{lit: "a"}, {lit: "%%"}, {lit: "xyz 12"}}
	for _, v := range []byte{'d', 'x', 'o', 's'} {
		for _, w := range widths {
			vf15Toks = append(vf15Toks, vfTok{verb: v, width: w})
		}
	}
	// widths whose low byte / low 16 bits are small (a width narrowed to a smaller integer type would wrap)
	for _, v := range []byte{'d', 'x', 'o'} {
		for _, w := range []int{256, 260, 65541} {
			vf15Toks = append(vf15Toks, vfTok{verb: v, width: w})
		}
	}
	vf15Toks = append(vf15Toks, vfTok{verb: 's', width: 258})
	vf15Toks = append(vf15Toks, vfTok{verb: 't', width: -1}, vfTok{verb: 't', width: 7}, vfTok{verb: 's', width: 1000000})
	vf15Args = []interface{}{
		uint8(0), uint8(1), uint8(255), uint16(0), uint16(65535), uint32(0), uint32(1<<32 - 1), uint64(0), uint64(1), uint64(1<<64 - 1), uintptr(0), uintptr(1 << 63), uintptr(1<<64 - 1),
		int8(0), int8(1), int8(-1), int8(-128), int8(127), int8(-127), int16(-32768), int16(32767), int16(-1), int32(-1 << 31), int32(1<<31 - 1), int32(-1),
		int64(-1 << 63), int64(-1<<63 + 1), int64(1<<63 - 1), int64(-1), int64(0), int(0), int(-42), int(1<<63 - 1), int(-1 << 63),
		"", "x", "hello", strings.Repeat("z", 40), []byte{}, []byte("ab"), []byte(strings.Repeat("q", 33)), true, false, 3.5, nil, struct{ a int }{7}, uint(3),
	}
}

func vf15RunOne(run *verifrt.Run, tokIdx, argIdx []int) {
	run.Case()
	toks := make([]vfTok, len(tokIdx))
	f := ""
	for i, ti := range tokIdx {
		toks[i] = vf15Toks[ti]
		f += toks[i].String()
	}
	args := make([]interface{}, len(argIdx))
	for i, ai := range argIdx {
		args[i] = vf15Args[ai]
	}
	want := vfRefFmt(toks, args)
	sink := &vfCmpSink{want: want}
	var pan interface{}
	func() {
		defer func() { pan = recover() }()
		Fprintf(sink, f, args...)
	}()
	if pan != nil || sink.bad || sink.pos != len(want) {
		var as []string
		for _, a := range args {
			as = append(as, fmt.Sprintf("%#v", a))
		}
		desc := fmt.Sprintf("Fprintf(%q, %s): output differs from the reference at byte %d (wrote %d bytes, expected %d: %q)", vfShort(f), strings.Join(as, ", "), sink.badAt, sink.gotLen, len(want), vfShort(want))
		class := "wrong-output"
		if pan != nil {
			class = "panic"
			desc = fmt.Sprintf("Fprintf(%q, %s) panicked: %v", vfShort(f), strings.Join(as, ", "), pan)
		}
		run.Violate(class, fmt.Sprintf("%s %v %v", class, tokIdx, argIdx), desc, vf15Case{Format: f, Args: as, ArgIdx: argIdx, TokIdx: tokIdx})
		return
	}
	if len(tokIdx) <= 1 {
		run.Distinct(want)
	}
}

// vf15RunEarly formats through the destination Printf uses before a sink exists (a nil writer, redirected to the early
// ring buffer): it must not panic, and what the ring hands to the first sink must be the reference output (compared
// when it fits the ring; the ring's own retention rule is C16's subject).
func vf15RunEarly(run *verifrt.Run, tokIdx, argIdx []int, viaPrintf bool) {
	run.Case()
	toks := make([]vfTok, len(tokIdx))
	f := ""
	for i, ti := range tokIdx {
		toks[i] = vf15Toks[ti]
		f += toks[i].String()
	}
	args := make([]interface{}, len(argIdx))
	for i, ai := range argIdx {
		args[i] = vf15Args[ai]
	}
	want := vfRefFmt(toks, args)
	earlyPrintBuffer = ringBuffer{}
	outputSink = nil
	var pan interface{}
	func() {
		defer func() { pan = recover() }()
		if viaPrintf {
			Printf(f, args...)
		} else {
			Fprintf(nil, f, args...)
		}
	}()
	sink := &vfCmpSink{want: want}
	if pan == nil {
		func() {
			defer func() { pan = recover() }()
			SetOutputSink(sink)
		}()
	}
	outputSink = nil
	earlyPrintBuffer = ringBuffer{}
	fits := len(want) < ringBufferSize
	if pan != nil || (fits && (sink.bad || sink.pos != len(want))) {
		var as []string
		for _, a := range args {
			as = append(as, fmt.Sprintf("%#v", a))
		}
		class := "early-wrong-output"
		desc := fmt.Sprintf("Printf(%q, %s) before a sink exists: the early buffer handed over %d bytes that differ from the reference at byte %d (expected %d: %q)", vfShort(f), strings.Join(as, ", "), sink.gotLen, sink.badAt, len(want), vfShort(want))
		if pan != nil {
			class = "early-panic"
			desc = fmt.Sprintf("Printf(%q, %s) before a sink exists panicked: %v", vfShort(f), strings.Join(as, ", "), pan)
		}
		run.Violate(class, fmt.Sprintf("%s %v %v", class, tokIdx, argIdx), desc, vf15Case{Format: f, Args: as, ArgIdx: argIdx, TokIdx: tokIdx, Early: true, ViaPrintf: viaPrintf})
	}
}

func vfShort(s string) string {
	if len(s) > 80 {
		return s[:40] + "..." + s[len(s)-30:]
	}
	return s
}

type vfNullSink struct{ n int }

func (s *vfNullSink) Write(p []byte) (int, error) { s.n += len(p); return len(p), nil }

func TestVerifC15(t *testing.T) {
	run := verifrt.Start("C15")
	vf15Init(run.Thorough())
	var rp vf15Case
	if run.Replaying(&rp) {
		if rp.TokIdx != nil && rp.Early {
			vf15RunEarly(run, rp.TokIdx, rp.ArgIdx, rp.ViaPrintf)
		} else if rp.TokIdx != nil {
			vf15RunOne(run, rp.TokIdx, rp.ArgIdx)
		} else {
			// an arbitrary-format / allocation case: replay by format text
			var pan interface{}
			func() {
				defer func() { pan = recover() }()
				Fprintf(&vfNullSink{}, rp.Format, 1, "s")
			}()
			run.Case()
			if pan != nil {
				run.Violate("panic", "fmt "+rp.Format, fmt.Sprintf("Fprintf(%q, 1, \"s\") panicked: %v", rp.Format, pan), rp)
			}
		}
		run.Finish(true, "replay", "replay")
		return
	}
	nt, na := len(vf15Toks), len(vf15Args)
	idx := 0
	// one token: every argument list of length 0, 1, 2
	for t1 := 0; t1 < nt; t1++ {
		idx++
		if !run.Mine(idx) {
			continue
		}
		vf15RunOne(run, []int{t1}, nil)
		for a := 0; a < na; a++ {
			vf15RunOne(run, []int{t1}, []int{a})
			for b := 0; b < na; b += 7 {
				vf15RunOne(run, []int{t1}, []int{a, b})
			}
		}
		// before a sink exists: one token x every argument through both entry points, two tokens x every first argument
		if vf15Toks[t1].width != 1000000 {
			vf15RunEarly(run, []int{t1}, nil, true)
			for a := 0; a < na; a++ {
				vf15RunEarly(run, []int{t1}, []int{a}, true)
				vf15RunEarly(run, []int{t1}, []int{a}, false)
			}
			for t2 := 0; t2 < nt; t2++ {
				if vf15Toks[t2].width == 1000000 {
					continue
				}
				for a := 0; a < na; a++ {
					vf15RunEarly(run, []int{t1, t2}, []int{a, 35}, (a+t2)%2 == 0)
				}
			}
		}
		// two tokens: full product of tokens x first argument x a 3-value second argument
		for t2 := 0; t2 < nt; t2++ {
			if vf15Toks[t1].width == 1000000 && vf15Toks[t2].width == 1000000 {
				continue
			}
			for a := 0; a < na; a++ {
				for _, b := range []int{26, 35, 2} { // int64 min+... , "x", uint8(255)
					vf15RunOne(run, []int{t1, t2}, []int{a, b})
				}
			}
			vf15RunOne(run, []int{t1, t2}, []int{3})
			vf15RunOne(run, []int{t1, t2}, nil)
			// three tokens: deviation-bounded - the third token ranges over everything, arguments over boundary values
			if run.Thorough() || (t1+t2)%4 == 0 {
				for t3 := 0; t3 < nt; t3++ {
					if vf15Toks[t3].width == 1000000 || vf15Toks[t1].width == 1000000 || vf15Toks[t2].width == 1000000 {
						continue
					}
					for _, a := range []int{25, 17, 37, 43} {
						vf15RunOne(run, []int{t1, t2, t3}, []int{a, 9, a})
					}
				}
			}
		}
		run.Sample(map[string]interface{}{"format": vf15Toks[t1].String() + "%5d", "args": []string{"int8(-128)", "\"x\""}})
	}
	// "any format string": every string of length <=5 over {%,5,d,s,z,a,0,t} with 0-2 arguments never panics
	alpha := []byte{'%', '5', 'd', 's', 'z', 'a', '0', 't', 'x'}
	maxLen := 4
	if run.Thorough() {
		maxLen = 5
	}
	null := &vfNullSink{}
	var rec func(cur []byte)
	rec = func(cur []byte) {
		if len(cur) > 0 {
			f := string(cur)
			for nargs := 0; nargs <= 2; nargs++ {
				args := []interface{}{int16(-5), "s"}[:nargs]
				run.Case()
				var pan interface{}
				func() {
					defer func() { pan = recover() }()
					Fprintf(null, f, args...)
				}()
				if pan != nil {
					run.Violate("panic", "fmt "+f, fmt.Sprintf("Fprintf(%q) with %d arguments panicked: %v", f, nargs, pan), vf15Case{Format: f})
				}
			}
		}
		if len(cur) == maxLen {
			return
		}
		for _, c := range alpha {
			rec(append(cur, c))
		}
	}
	if run.Shard == 0 {
		rec(nil)
	}
	// allocation freedom: a pre-built batch (formats, argument slices) is formatted into a non-allocating
	// sink; the allocation counter must not move. Arguments are boxed before measuring.
	if run.Shard == 0 || run.NShards == 1 {
		type item struct {
			f    string
			args []interface{}
		}
		var batch []item
		for t1 := 0; t1 < nt; t1++ {
			if vf15Toks[t1].width == 1000000 {
				continue
			}
			for a := 0; a < na; a++ {
				batch = append(batch, item{vf15Toks[t1].String(), []interface{}{vf15Args[a]}})
				batch = append(batch, item{"lit " + vf15Toks[t1].String() + " %% " + vf15Toks[(t1+5)%nt].String(), []interface{}{vf15Args[a], vf15Args[(a+11)%na], vf15Args[(a+3)%na]}})
				// literal runs longer than the compiler's 32-byte stack temporaries
				batch = append(batch, item{"a literal run of text that is longer than thirty-two bytes " + vf15Toks[t1].String() + " and a trailing run that is also longer than thirty-two bytes", []interface{}{vf15Args[a]}})
			}
		}
		measure := func(lo, hi int) uint64 {
			var m1, m2 runtime.MemStats
			runtime.GC()
			runtime.ReadMemStats(&m1)
			for i := lo; i < hi; i++ {
				Fprintf(null, batch[i].f, batch[i].args...)
			}
			runtime.ReadMemStats(&m2)
			return m2.Mallocs - m1.Mallocs
		}
		measure(0, 4) // warm up
		if d := measure(0, len(batch)); d != 0 {
			// bisect to one case (repeatable allocations only)
			lo, hi := 0, len(batch)
			for hi-lo > 1 {
				mid := (lo + hi) / 2
				if measure(lo, mid) != 0 {
					hi = mid
				} else if measure(mid, hi) != 0 {
					lo = mid
				} else {
					break
				}
			}
			if measure(lo, lo+1) != 0 && measure(lo, lo+1) != 0 {
				run.Violate("allocates", "alloc "+batch[lo].f, fmt.Sprintf("Fprintf(%q, ...) performs a heap allocation (%d allocations over the batch)", batch[lo].f, d), vf15Case{Format: batch[lo].f})
			} else {
				run.Note("allocation counter moved by %d over the batch but no single case allocates repeatably (background runtime activity)", d)
			}
		}
		run.Count("allocation_batch_cases", int64(len(batch)))
	}
	run.Finish(true, fmt.Sprintf("format = 1-2 tokens (full product) and 3 tokens (third token free, boundary arguments) over %d tokens {literal, %%%%, %%d/%%x/%%o/%%s with width {absent,0,1,5,31,32,33,1000}, integer widths {256,260,65541}, %%258s, %%t, %%1000000s} x %d argument values (every built-in integer type at 0, +-1, min, max; strings/byte slices of length 0..40; bool; float, nil, struct, uint as wrong types) incl. too-short and too-long argument lists; the 1-token x argument and 2-token x first-argument products again with no sink set (Printf / Fprintf(nil) into the early ring buffer, handed to the first sink); every format string of length <=%d over 9 bytes with 0-2 arguments (no panic); allocation counter over a %s batch", nt, na, maxLen, "pre-built"),
		"distinct = distinct single-token outputs; every case compares byte-exact against the reference formatter through a non-storing sink")
}
