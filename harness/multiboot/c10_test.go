//go:build verif
// +build verif

package multiboot

// C10 — multiboot information is decoded exactly and never read past its end.
// Blocks are generated from a small AST by an encoder written independently of
// the decoder and placed flush against an inaccessible page (the ELF string
// table lives in a second guarded buffer); every visitor/getter result is
// compared with the AST.

import (
	"encoding/binary"
	"fmt"
	"reflect"
	"runtime/debug"
	"syscall"
	"testing"
	"unsafe"

	"github.com/ProjectSerenity/firefly/kernel/internal/verifrt"
)

type vfMMEntry struct {
	Addr uint64 `json:"addr"`
	Len  uint64 `json:"len"`
	Type uint32 `json:"type"`
}
type vfElfSec struct {
	Name  string `json:"name"`
	Flags uint64 `json:"flags"`
	Addr  uint64 `json:"addr"`
	Size  uint64 `json:"size"`
}
type vfTag struct {
	Kind    string      `json:"kind"` // cmdline mmap fb elf unknown
	Cmdline string      `json:"cmdline,omitempty"`
	EntSize uint32      `json:"ent_size,omitempty"`
	Entries []vfMMEntry `json:"entries,omitempty"`
	FB      []byte      `json:"fb,omitempty"`
	Secs    []vfElfSec  `json:"secs,omitempty"`
	BigSecs int         `json:"big_secs,omitempty"` // generate this many sections instead of listing them (vfBigSecs)
	UnkSize int         `json:"unk_size,omitempty"`
}

// vfBigSecs generates n distinguishable sections (name, flags, address and size all depend on the index; every 7th is empty).
func vfBigSecs(n int) []vfElfSec {
	out := make([]vfElfSec, n)
	for k := range out {
		sz := uint64(1 + k%5*4096 + k)
		if k%7 == 3 {
			sz = 0
		}
		out[k] = vfElfSec{fmt.Sprintf(".s%d", k%11), uint64(k % 8), 0xffffffff80000000 + uint64(k)*0x10000, sz}
	}
	return out
}
type vf10Case struct {
	Tags []vfTag `json:"tags"` // in block order; the first tag of each kind is the one that counts
	// Seq is the order in which the accessors are called (m = memory map, e = ELF sections, f = framebuffer, c = command
	// line; a letter may repeat); empty = "mmefc". Every call is compared with the block.
	Seq string `json:"seq,omitempty"`
}

var vfLE = binary.LittleEndian

func vfEncodeBlock(tags []vfTag, strtab *[]byte, strtabAddr uintptr) []byte {
	b := make([]byte, 8)
	firstElf := true
	for _, t := range tags {
		var payload []byte
		var typ uint32
		switch t.Kind {
		case "cmdline":
			typ = 1
			payload = append([]byte(t.Cmdline), 0)
		case "mmap":
			typ = 6
			payload = make([]byte, 8)
			vfLE.PutUint32(payload[0:], t.EntSize)
			for _, e := range t.Entries {
				ent := make([]byte, t.EntSize)
				vfLE.PutUint64(ent[0:], e.Addr)
				vfLE.PutUint64(ent[8:], e.Len)
				vfLE.PutUint32(ent[16:], e.Type)
				for i := 20; i < len(ent); i++ {
					ent[i] = 0xEE
				}
				payload = append(payload, ent...)
			}
		case "fb":
			typ = 8
			payload = t.FB
		case "elf":
			typ = 9
			payload = make([]byte, 12)
			vfLE.PutUint32(payload[0:], uint32(len(t.Secs)+1)) // + the string table section
			vfLE.PutUint32(payload[4:], 64)
			vfLE.PutUint32(payload[8:], uint32(len(t.Secs))) // string table index = last
			var st []byte
			st = append(st, 0)
			mk := func(nameIdx uint32, flags, addr, size uint64) []byte {
				s := make([]byte, 64)
				vfLE.PutUint32(s[0:], nameIdx)
				vfLE.PutUint32(s[4:], 1)
				vfLE.PutUint64(s[8:], flags)
				vfLE.PutUint64(s[16:], addr)
				vfLE.PutUint64(s[24:], 0x1000)
				vfLE.PutUint64(s[32:], size)
				return s
			}
			for _, sc := range t.Secs {
				idx := uint32(len(st))
				st = append(st, append([]byte(sc.Name), 0)...)
				payload = append(payload, mk(idx, sc.Flags, sc.Addr, sc.Size)...)
			}
			idx := uint32(len(st))
			st = append(st, []byte(".shstrtab\x00")...)
			payload = append(payload, mk(idx, 0, uint64(strtabAddr), uint64(len(st)))...)
			if firstElf {
				*strtab = st
				firstElf = false
			}
		case "unknown":
			typ = 21
			payload = make([]byte, t.UnkSize)
			for i := range payload {
				payload[i] = 0xCC
			}
		}
		hdr := make([]byte, 8)
		vfLE.PutUint32(hdr[0:], typ)
		vfLE.PutUint32(hdr[4:], uint32(8+len(payload)))
		b = append(b, hdr...)
		b = append(b, payload...)
		for len(b)%8 != 0 {
			b = append(b, 0xDD)
		}
	}
	end := make([]byte, 8)
	vfLE.PutUint32(end[4:], 8)
	b = append(b, end...)
	vfLE.PutUint32(b[0:], uint32(len(b)))
	return b
}

type vfGuarded struct {
	mem   []byte
	pages int
}

func vfNewGuarded(n int) *vfGuarded {
	pages := (n + 4095) / 4096
	m, err := syscall.Mmap(-1, 0, (pages+1)*4096, syscall.PROT_READ|syscall.PROT_WRITE, syscall.MAP_ANON|syscall.MAP_PRIVATE)
	if err != nil {
		panic(err)
	}
	if err := syscall.Mprotect(m[pages*4096:], syscall.PROT_NONE); err != nil {
		panic(err)
	}
	return &vfGuarded{m, pages}
}

// place copies data so that its last byte abuts the inaccessible page.
func (g *vfGuarded) place(data []byte, align int) uintptr {
	off := g.pages*4096 - len(data)
	off &^= (align - 1)
	for i := 0; i < off; i++ {
		g.mem[i] = 0x5A
	}
	copy(g.mem[off:], data)
	for i := off + len(data); i < g.pages*4096; i++ {
		g.mem[i] = 0x5A
	}
	return uintptr(unsafe.Pointer(&g.mem[off]))
}

func vfSplitFields(s string) []string {
	var out []string
	cur := ""
	for i := 0; i < len(s); i++ {
		if s[i] == ' ' || s[i] == '\t' || s[i] == '\n' {
			if cur != "" {
				out = append(out, cur)
				cur = ""
			}
		} else {
			cur += string(s[i])
		}
	}
	if cur != "" {
		out = append(out, cur)
	}
	return out
}

// vfExpCmd: key=value and bare-flag tokens; tokens with more than one '=' are outside the statement (second result).
func vfExpCmd(s string) (map[string]string, bool) {
	m := map[string]string{}
	defined := true
	for _, f := range vfSplitFields(s) {
		eq, cnt := -1, 0
		for i := range f {
			if f[i] == '=' {
				cnt++
				if eq < 0 {
					eq = i
				}
			}
		}
		switch cnt {
		case 0:
			m[f] = f
		case 1:
			m[f[:eq]] = f[eq+1:]
		default:
			defined = false
		}
	}
	return m, defined
}

type vf10Env struct {
	blk    *vfGuarded
	str    *vfGuarded
	strtab []byte
}

func (e *vf10Env) runCase(run *verifrt.Run, c vf10Case) {
	run.Case()
	verifrt.JournalJSON(c)
	orig := c
	report := func(class, msg string) {
		run.Violate(class, class+" "+verifrt.JSONKey(orig), fmt.Sprintf("%s: %s", vfShortJSON(orig), msg), orig)
	}
	if c.hasBig() {
		tags := append([]vfTag(nil), c.Tags...)
		for i := range tags {
			if tags[i].BigSecs > 0 {
				tags[i].Secs = vfBigSecs(tags[i].BigSecs)
			}
		}
		c = vf10Case{Tags: tags, Seq: c.Seq}
	}
	// the string table sits flush against its own guard page
	probe := vfEncodeBlock(c.Tags, &e.strtab, 0)
	_ = probe
	strAddr := e.str.place(e.strtab, 1)
	blk := vfEncodeBlock(c.Tags, &e.strtab, strAddr)
	addr := e.blk.place(blk, 8)
	SetInfoPtr(addr)
	cmdLineKV = nil
	first := map[string]*vfTag{}
	for i := range c.Tags {
		if _, ok := first[c.Tags[i].Kind]; !ok {
			first[c.Tags[i].Kind] = &c.Tags[i]
		}
	}
	qMem := func() {
		var got []vfMMEntry
		VisitMemRegions(func(en *MemoryMapEntry) bool {
			got = append(got, vfMMEntry{en.PhysAddress, en.Length, uint32(en.Type)})
			return true
		})
		var want []vfMMEntry
		if t := first["mmap"]; t != nil {
			for _, en := range t.Entries {
				ty := en.Type
				if ty < 1 || ty > 4 {
					ty = 2 // types outside the defined set are reported as reserved
				}
				want = append(want, vfMMEntry{en.Addr, en.Len, ty})
			}
		}
		if !reflect.DeepEqual(got, want) {
			report("memory-map", fmt.Sprintf("memory regions reported %v, the block encodes %v", got, want))
		}
		// early termination of the visit
		if len(want) >= 2 {
			n := 0
			VisitMemRegions(func(en *MemoryMapEntry) bool { n++; return false })
			if n != 1 {
				report("memory-map", fmt.Sprintf("visitor returned false but was called %d times", n))
			}
		}
	}
	qElf := func() {
		var gs []vfElfSec
		VisitElfSections(func(name string, fl ElfSectionFlag, a uintptr, sz uint64) {
			gs = append(gs, vfElfSec{string(append([]byte(nil), name...)), uint64(fl), uint64(a), sz})
		})
		var ws []vfElfSec
		if t := first["elf"]; t != nil {
			for _, s := range t.Secs {
				if s.Size != 0 {
					ws = append(ws, vfElfSec{s.Name, uint64(uint32(s.Flags)), s.Addr, s.Size})
				}
			}
			ws = append(ws, vfElfSec{".shstrtab", 0, uint64(strAddr), uint64(len(e.strtab))})
		}
		if !reflect.DeepEqual(gs, ws) {
			msg := fmt.Sprintf("ELF sections reported %v, the block encodes %v", gs, ws)
			if len(gs)+len(ws) > 40 {
				k := 0
				for k < len(gs) && k < len(ws) && gs[k] == ws[k] {
					k++
				}
				msg = fmt.Sprintf("%d ELF sections reported, the block encodes %d; the first difference is at reported section %d", len(gs), len(ws), k)
				if k < len(gs) && k < len(ws) {
					msg += fmt.Sprintf(" (%v instead of %v)", gs[k], ws[k])
				}
			}
			report("elf-sections", msg)
		}
	}
	qFB := func() {
		info := GetFramebufferInfo()
		t := first["fb"]
		if (info != nil) != (t != nil) {
			report("framebuffer", fmt.Sprintf("framebuffer info present=%v, tag present=%v", info != nil, t != nil))
		} else if info != nil {
			fb := t.FB
			if info.PhysAddr != vfLE.Uint64(fb[0:]) || info.Pitch != vfLE.Uint32(fb[8:]) || info.Width != vfLE.Uint32(fb[12:]) || info.Height != vfLE.Uint32(fb[16:]) || info.Bpp != fb[20] || uint8(info.Type) != fb[21] {
				report("framebuffer", fmt.Sprintf("framebuffer fields (%#x,%d,%d,%d,%d,%d) differ from the tag", info.PhysAddr, info.Pitch, info.Width, info.Height, info.Bpp, info.Type))
			}
			ci := info.RGBColorInfo()
			if (ci != nil) != (fb[21] == 1) {
				report("framebuffer", fmt.Sprintf("RGB layout present=%v for framebuffer type %d", ci != nil, fb[21]))
			}
			if ci != nil && (ci.RedPosition != fb[24] || ci.RedMaskSize != fb[25] || ci.GreenPosition != fb[26] || ci.GreenMaskSize != fb[27] || ci.BluePosition != fb[28] || ci.BlueMaskSize != fb[29]) {
				report("framebuffer", "RGB layout differs from the tag")
			}
		}
	}
	qCmd := func() {
		kv := GetBootCmdLine()
		wantKV := map[string]string{}
		defined := true
		if t := first["cmdline"]; t != nil {
			wantKV, defined = vfExpCmd(t.Cmdline)
		}
		if defined && !reflect.DeepEqual(kv, wantKV) {
			report("command-line", fmt.Sprintf("command line decoded as %v, expected %v", kv, wantKV))
		}
	}
	seq := c.Seq
	if seq == "" {
		seq = "mefc"
	}
	var pan interface{}
	func() {
		defer func() { pan = recover() }()
		for _, q := range seq {
			switch q {
			case 'm':
				qMem()
			case 'e':
				qElf()
			case 'f':
				qFB()
			case 'c':
				qCmd()
			}
		}
	}()
	if pan != nil {
		class := "panic"
		if fmt.Sprint(pan) == "runtime error: invalid memory address or nil pointer dereference" || containsFault(pan) {
			class = "read-past-end"
		}
		report(class, fmt.Sprintf("decoding faulted: %v (a read outside the block or its string table hits the inaccessible page)", pan))
	}
	kinds := ""
	for _, t := range c.Tags {
		kinds += t.Kind[:1]
	}
	run.Distinct(kinds + fmt.Sprint(len(blk)))
}

func (c vf10Case) hasBig() bool {
	for _, t := range c.Tags {
		if t.BigSecs > 0 {
			return true
		}
	}
	return false
}

func containsFault(p interface{}) bool {
	s := fmt.Sprint(p)
	for i := 0; i+5 <= len(s); i++ {
		if s[i:i+5] == "fault" {
			return true
		}
	}
	return false
}

func vfShortJSON(c vf10Case) string {
	s := verifrt.JSONKey(c)
	if len(s) > 300 {
		return s[:300] + "..."
	}
	return s
}

func vfPerms(n int) [][]int {
	var out [][]int
	verifrt.Permutations(n, func(p []int) bool { out = append(out, append([]int(nil), p...)); return true })
	return out
}

func TestVerifC10(t *testing.T) {
	run := verifrt.Start("C10")
	debug.SetPanicOnFault(true)
	saved, savedKV := infoData, cmdLineKV
	defer func() { infoData, cmdLineKV = saved, savedKV }()
	env := &vf10Env{blk: vfNewGuarded(16384), str: vfNewGuarded(4096)}

	var bigEnv *vf10Env
	big := func() *vf10Env {
		if bigEnv == nil {
			bigEnv = &vf10Env{blk: vfNewGuarded(5 << 20), str: vfNewGuarded(1 << 20)}
		}
		return bigEnv
	}
	var rp vf10Case
	if run.Replaying(&rp) {
		if rp.hasBig() {
			env = big()
		}
		env.runCase(run, rp)
		run.Finish(true, "replay", "replay")
		return
	}
	mkFB := func(typ, bpp byte, rgb []byte) []byte {
		fb := make([]byte, 24)
		vfLE.PutUint64(fb[0:], 0xfd000000)
		vfLE.PutUint32(fb[8:], 4096)
		vfLE.PutUint32(fb[12:], 1024)
		vfLE.PutUint32(fb[16:], 768)
		fb[20], fb[21] = bpp, typ
		if typ == 1 {
			fb = append(fb, rgb...)
		}
		if typ == 0 {
			fb = append(fb, 2, 0, 0, 0, 1, 2, 3, 4, 5, 6) // palette with two entries
		}
		return fb
	}
	fbs := [][]byte{nil, mkFB(1, 32, []byte{16, 8, 8, 8, 0, 8}), mkFB(2, 16, nil), mkFB(1, 16, []byte{11, 5, 5, 6, 0, 5}), mkFB(0, 8, nil), mkFB(1, 15, []byte{10, 5, 5, 5, 0, 5}), mkFB(3, 24, nil), mkFB(1, 24, []byte{0, 8, 8, 8, 16, 8})}
	cmdlines := []string{"", "a", "a=b", "a=b c", "  a   b=c ", "=x", "a=", "a=b=c d", "consoleFont=terminus10x18 consoleLogo=off"}
	types := []uint32{0, 1, 2, 3, 4, 5, 6, 0xFFFFFFFF}
	var mmaps []vfTag
	for _, es := range []uint32{24, 28, 32, 40} {
		for cnt := 0; cnt <= 3; cnt++ {
			var ents []vfMMEntry
			for i := 0; i < cnt; i++ {
				ents = append(ents, vfMMEntry{uint64(i) << 32, 0xfff + uint64(i)*(1<<63-7), types[(i*3+int(es))%len(types)]})
			}
			mmaps = append(mmaps, vfTag{Kind: "mmap", EntSize: es, Entries: ents})
		}
	}
	for _, ty := range types {
		mmaps = append(mmaps, vfTag{Kind: "mmap", EntSize: 24, Entries: []vfMMEntry{{0, 1<<64 - 1, ty}}})
	}
	elfs := []vfTag{
		{Kind: "elf", Secs: nil},
		{Kind: "elf", Secs: []vfElfSec{{".text", 6, 0xffffffff80100000, 4096}}},
		{Kind: "elf", Secs: []vfElfSec{{"", 3, 0x1000, 1}, {".empty", 7, 0x2000, 0}, {".averyveryveryverylongsectionname", 1, 0xffffffffffffffff, 1 << 40}}},
		{Kind: "elf", Secs: []vfElfSec{{".rodata", 2, 0xffffffff80200010, 4097}, {".data", 3, 0xffffffff80300000, 1}}},
	}
	idx := 0
	for ci, cl := range cmdlines {
		for mi, mmT := range mmaps {
			idx++
			if !run.Mine(idx) {
				continue
			}
			for ei, elf := range elfs {
				for fi, fb := range fbs {
					if !run.Thorough() && fi >= 3 && (ci+mi+ei+fi)%4 != 0 {
						continue
					}
					for _, unk := range []int{-1, 0, 3, 5} {
						var tags []vfTag
						tags = append(tags, vfTag{Kind: "cmdline", Cmdline: cl}, mmT, elf)
						if fb != nil {
							tags = append(tags, vfTag{Kind: "fb", FB: fb})
						}
						if unk >= 0 {
							tags = append(tags, vfTag{Kind: "unknown", UnkSize: unk})
						}
						perms := [][]int{nil}
						if len(cl) <= 1 && mmT.EntSize == 24 && len(mmT.Entries) <= 1 && fi < 3 {
							perms = vfPerms(len(tags)) // every tag order on the small ones
						} else if run.Thorough() {
							perms = vfPerms(len(tags)) // thorough: every tag order on every block
						}
						for _, perm := range perms {
							ord := tags
							if perm != nil {
								ord = nil
								for _, i := range perm {
									ord = append(ord, tags[i])
								}
							}
							// duplicates appended last: the first tag of each type must win
							withDup := append(append([]vfTag{}, ord...), vfTag{Kind: "mmap", EntSize: 24, Entries: []vfMMEntry{{0xdead, 1, 1}}}, vfTag{Kind: "cmdline", Cmdline: "dup=1"})
							c := vf10Case{Tags: withDup}
							run.Sample(c)
							env.runCase(run, c)
							// and without duplicates, so that the last real tag abuts the end tag
							env.runCase(run, vf10Case{Tags: ord})
						}
					}
				}
			}
		}
	}
	if run.Shard == 0 {
		// absent tags; each tag alone; the tag directly in front of the guard page
		env.runCase(run, vf10Case{})
		env.runCase(run, vf10Case{Tags: []vfTag{{Kind: "unknown", UnkSize: 1}}})
		for _, cl := range cmdlines {
			env.runCase(run, vf10Case{Tags: []vfTag{{Kind: "cmdline", Cmdline: cl}}})
		}
		for _, m := range mmaps {
			env.runCase(run, vf10Case{Tags: []vfTag{m}})
		}
		for _, e := range elfs {
			env.runCase(run, vf10Case{Tags: []vfTag{e}})
		}
		for _, fb := range fbs[1:] {
			env.runCase(run, vf10Case{Tags: []vfTag{{Kind: "fb", FB: fb}}})
		}
	}
	// accessor sequences: every presence subset of the four decoded tags x every sequence of <=4 accessor calls (a lookup
	// of an absent tag after a present one, the same accessor twice, ...)
	{
		full := []vfTag{{Kind: "mmap", EntSize: 24, Entries: []vfMMEntry{{0x1000, 0x9f000, 1}, {0x100000, 0x7ee0000, 1}, {0xfffc0000, 0x40000, 2}}}, elfs[3], {Kind: "fb", FB: fbs[1]}, {Kind: "cmdline", Cmdline: "a=b c"}}
		var seqs []string
		var rec func(cur string)
		rec = func(cur string) {
			if cur != "" {
				seqs = append(seqs, cur)
			}
			if len(cur) == 4 {
				return
			}
			for _, q := range "mefc" {
				rec(cur + string(q))
			}
		}
		rec("")
		for mask := 0; mask < 16; mask++ {
			idx++
			if !run.Mine(idx) {
				continue
			}
			var tags []vfTag
			for i := range full {
				if mask&(1<<uint(i)) != 0 {
					tags = append(tags, full[i])
				}
			}
			for _, sq := range seqs {
				env.runCase(run, vf10Case{Tags: tags, Seq: sq})
			}
		}
	}
	// section tables around and above 1024 and 32768 headers (the header count is a 16-bit field; 64-byte headers)
	for _, n := range []int{1022, 1023, 1024, 1025, 1100, 2049, 4097, 32767, 32769, 65534} {
		idx++
		if !run.Mine(idx) {
			continue
		}
		if !run.Thorough() && n > 5000 {
			continue
		}
		big().runCase(run, vf10Case{Tags: []vfTag{{Kind: "elf", BigSecs: n}}, Seq: "e"})
		big().runCase(run, vf10Case{Tags: []vfTag{{Kind: "cmdline", Cmdline: "x"}, {Kind: "elf", BigSecs: n}, mmaps[2]}})
	}
	run.Finish(true, "9 command lines x 24 memory maps (entry size {24,28,32,40}, 0-3 entries, every type in {0..6, 2^32-1}, extreme addresses/lengths) x 4 ELF tables x framebuffer {none, RGB 32/16/15/24, EGA, indexed, unknown type} x unknown tag of size {none,0,3,5} (padding); every tag order on the small blocks (thorough: on every block); duplicate tags appended; each tag alone; 16 presence subsets x every sequence of <=4 accessor calls; section tables of 1022..4097 (thorough: ..65534) headers; every block flush against an inaccessible page",
		"distinct = (tag order, block size); every decoded field is compared with the AST the block was generated from")
}

func vfReverse(n int) []int {
	p := make([]int, n)
	for i := range p {
		p[i] = n - 1 - i
	}
	return p
}
