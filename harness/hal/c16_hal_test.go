//go:build verif
// +build verif

package hal

// C16 part 2 — device bring-up through the real hal.DetectHardware: ordered
// probing, failed drivers never active, first console / first terminal win,
// terminal attached + active + kernel log sink, early log delivered exactly
// once in order ahead of later output. Bounded-exhaustive enumeration of
// driver sets x registration permutations x early-log sizes.

import (
	"bytes"
	"fmt"
	"image/color"
	"io"
	"io/ioutil"
	"strings"
	"testing"
	"unsafe"

	"github.com/ProjectSerenity/firefly/kernel"
	"github.com/ProjectSerenity/firefly/kernel/device"
	"github.com/ProjectSerenity/firefly/kernel/device/tty"
	"github.com/ProjectSerenity/firefly/kernel/device/video/console"
	"github.com/ProjectSerenity/firefly/kernel/internal/verifrt"
	"github.com/ProjectSerenity/firefly/kernel/kfmt"
	"github.com/ProjectSerenity/firefly/kernel/multiboot"
)

// ---- mock drivers

type vfBase struct {
	name    string
	outcome int // 0 ok, 1 ok + logs a line, 2 init fails, 3 probe returns nil, 4 ok + logs a partial line
	log     *[]string
}

func (b *vfBase) DriverName() string                      { return b.name }
func (b *vfBase) DriverVersion() (uint16, uint16, uint16) { return 0, 0, 1 }
func (b *vfBase) DriverInit(w io.Writer) *kernel.Error {
	*b.log = append(*b.log, "init "+b.name)
	switch b.outcome {
	case 1:
		kfmt.Fprintf(w, "hello-from-%s\n", b.name)
	case 4:
		kfmt.Fprintf(w, "partial-%s", b.name)
	case 2:
		return &kernel.Error{Module: "mock", Message: "boom-" + b.name}
	}
	return nil
}

type vfCons struct {
	vfBase
	w, h  uint32
	cells []byte
}

func (c *vfCons) Dimensions(console.Dimension) (uint32, uint32) { return c.w, c.h }
func (c *vfCons) DefaultColors() (uint8, uint8)                 { return 7, 0 }
func (c *vfCons) Fill(x, y, w, h uint32, fg, bg uint8) {
	for yy := y; yy < y+h && yy <= c.h; yy++ {
		for xx := x; xx < x+w && xx <= c.w; xx++ {
			if xx >= 1 && yy >= 1 {
				c.cells[(yy-1)*c.w+xx-1] = ' '
			}
		}
	}
}
func (c *vfCons) Scroll(dir console.ScrollDir, lines uint32) {
	if lines == 0 || lines > c.h {
		return
	}
	if dir == console.ScrollDirUp {
		copy(c.cells, c.cells[lines*c.w:])
	}
}
func (c *vfCons) Write(ch byte, fg, bg uint8, x, y uint32) {
	if x >= 1 && x <= c.w && y >= 1 && y <= c.h {
		c.cells[(y-1)*c.w+x-1] = ch
	}
}
func (c *vfCons) Palette() color.Palette            { return nil }
func (c *vfCons) SetPaletteColor(uint8, color.RGBA) {}

type vfRecTTY struct {
	vfBase
	buf   bytes.Buffer
	cons  console.Device
	state tty.State
	// order of life-cycle calls
	calls []string
}

// Like the repository's own terminal (device/tty/vt.go WriteByte), a terminal that is not attached to a
// console cannot show anything: it refuses the data.
func (t *vfRecTTY) Write(p []byte) (int, error) {
	if t.cons == nil {
		if len(p) == 0 {
			return 0, nil
		}
		return 0, io.ErrClosedPipe
	}
	return t.buf.Write(p)
}
func (t *vfRecTTY) WriteByte(b byte) error {
	if t.cons == nil {
		return io.ErrClosedPipe
	}
	return t.buf.WriteByte(b)
}
func (t *vfRecTTY) AttachTo(c console.Device)        { t.cons = c; t.calls = append(t.calls, "attach") }
func (t *vfRecTTY) State() tty.State                 { return t.state }
func (t *vfRecTTY) SetState(s tty.State)             { t.state = s; t.calls = append(t.calls, fmt.Sprintf("state%d", s)) }
func (t *vfRecTTY) CursorPosition() (uint32, uint32) { return 1, 1 }
func (t *vfRecTTY) SetCursorPosition(x, y uint32)    {}

type vfOther struct{ vfBase }

// ---- a case

type vfDrv struct {
	Kind    int `json:"kind"`    // 0 console, 1 recording tty, 2 real tty.VT, 3 other
	Order   int `json:"order"`   // device.DetectOrder
	Outcome int `json:"outcome"` // see vfBase.outcome (ignored for the real VT, which always initialises)
	asVT    bool // differential reference only: a recorder that calls itself "vt"
}

type vfHalCase struct {
	Drivers []vfDrv `json:"drivers"` // in registration order
	PreLog  int     `json:"pre_log"`
}

type vfInst struct {
	d    vfDrv
	name string
	drv  device.Driver
}

func (in *vfInst) comesUp() bool {
	return in.d.Kind == 2 || (in.d.Outcome != 2 && in.d.Outcome != 3)
}

type vfBootOut struct {
	insts     []*vfInst
	log       []string
	pre       []byte
	sinkAfter io.Writer
	pan       interface{}
}

var vfMbBlock = make([]uint64, 4)

const vfPost = "<post-1>\n<post-2>\n"

// vfHalBoot runs the real bring-up for c.
func vfHalBoot(c vfHalCase) *vfBootOut {
	out := &vfBootOut{}
	// minimal multiboot block (no tags): the console hooks read the command line
	*(*uint32)(unsafe.Pointer(&vfMbBlock[0])) = 16
	*(*uint32)(unsafe.Pointer(uintptr(unsafe.Pointer(&vfMbBlock[1])))) = 0
	*(*uint32)(unsafe.Pointer(uintptr(unsafe.Pointer(&vfMbBlock[1])) + 4)) = 8
	multiboot.SetInfoPtr(uintptr(unsafe.Pointer(&vfMbBlock[0])))

	var infos device.DriverInfoList
	for i, d := range c.Drivers {
		in := &vfInst{d: d, name: fmt.Sprintf("drv%c", 'A'+i)}
		base := vfBase{name: in.name, outcome: d.Outcome, log: &out.log}
		if d.asVT {
			base.name = "vt"
		}
		switch d.Kind {
		case 0:
			in.drv = &vfCons{vfBase: base, w: 40, h: 4, cells: make([]byte, 160)}
		case 1:
			in.drv = &vfRecTTY{vfBase: base}
		case 2:
			in.drv = &vfTeeVT{VT: tty.NewVT(4, 2)}
		case 3:
			in.drv = &vfOther{base}
		}
		in2 := in
		infos = append(infos, &device.DriverInfo{Order: device.DetectOrder(d.Order), Probe: func() device.Driver {
			out.log = append(out.log, "probe "+in2.name)
			if in2.d.Outcome == 3 && in2.d.Kind != 2 {
				return nil
			}
			return in2.drv
		}})
		out.insts = append(out.insts, in)
	}
	old := device.VerifSetDrivers(infos)
	defer device.VerifSetDrivers(old)
	devices = managedDevices{}
	kfmt.SetOutputSink(nil)
	io.Copy(ioutil.Discard, kfmt.GetOutputSink().(io.Reader))

	// early log: numbered records so order/loss/duplication are visible
	var pre bytes.Buffer
	for i := 0; pre.Len() < c.PreLog; i++ {
		fmt.Fprintf(&pre, "<e%04d>", i)
	}
	out.pre = pre.Bytes()[:c.PreLog]
	for off := 0; off < len(out.pre); off += 7 {
		end := off + 7
		if end > len(out.pre) {
			end = len(out.pre)
		}
		kfmt.Printf("%s", out.pre[off:end])
	}
	func() {
		defer func() { out.pan = recover() }()
		DetectHardware()
	}()
	if out.pan == nil {
		kfmt.Printf("<post-1>\n")
		kfmt.Printf("<post-%d>\n", 2)
		out.sinkAfter = kfmt.GetOutputSink()
	}
	kfmt.SetOutputSink(nil)
	io.Copy(ioutil.Discard, kfmt.GetOutputSink().(io.Reader))
	return out
}

func vfHalRun(run *verifrt.Run, c vfHalCase) {
	run.Case()
	report := func(class, desc string) {
		run.Violate(class, class+" "+verifrt.JSONKey(c), fmt.Sprintf("%s: %s", verifrt.JSONKey(c), desc), c)
	}
	activeCons, activeTTY, activeDrivers := devices.activeConsole, devices.activeTTY, devices.activeDrivers
	out := vfHalBoot(c)
	activeCons, activeTTY, activeDrivers = devices.activeConsole, devices.activeTTY, devices.activeDrivers
	if out.pan != nil {
		report("panic", fmt.Sprint(out.pan))
		return
	}
	insts, log := out.insts, out.log

	// --- probe order
	var probed []*vfInst
	byName := map[string]*vfInst{}
	for _, in := range insts {
		byName[in.name] = in
	}
	for _, l := range log {
		if strings.HasPrefix(l, "probe ") {
			probed = append(probed, byName[l[6:]])
		}
	}
	if len(probed) != len(insts) {
		report("probe-count", fmt.Sprintf("%d probes for %d registered drivers: %v", len(probed), len(insts), log))
		return
	}
	seen := map[string]bool{}
	for i, in := range probed {
		if seen[in.name] {
			report("probe-twice", fmt.Sprintf("driver %s probed twice: %v", in.name, log))
			return
		}
		seen[in.name] = true
		if i > 0 && probed[i-1].d.Order > in.d.Order {
			report("probe-order", fmt.Sprintf("driver with order %d probed before order %d: %v", probed[i-1].d.Order, in.d.Order, log))
			return
		}
	}
	// --- expected active set, in probe order
	var wantActive []device.Driver
	var wantCons, wantTTY *vfInst
	for _, in := range probed {
		if !in.comesUp() {
			continue
		}
		wantActive = append(wantActive, in.drv)
		if in.d.Kind == 0 && wantCons == nil {
			wantCons = in
		}
		if (in.d.Kind == 1 || in.d.Kind == 2) && wantTTY == nil {
			wantTTY = in
		}
	}
	if len(activeDrivers) != len(wantActive) {
		report("active-drivers", fmt.Sprintf("%d active drivers, expected %d", len(activeDrivers), len(wantActive)))
	} else {
		for i := range wantActive {
			if activeDrivers[i] != wantActive[i] {
				report("active-drivers", fmt.Sprintf("active driver %d is %s, expected %s", i, activeDrivers[i].DriverName(), wantActive[i].DriverName()))
				break
			}
		}
	}
	for _, in := range insts {
		if !in.comesUp() {
			if (activeCons != nil && interface{}(activeCons) == interface{}(in.drv)) || (activeTTY != nil && interface{}(activeTTY) == interface{}(in.drv)) {
				report("failed-driver-active", fmt.Sprintf("driver %s did not initialise but is active", in.name))
			}
		}
	}
	if (wantCons == nil) != (activeCons == nil) || (wantCons != nil && interface{}(activeCons) != interface{}(wantCons.drv)) {
		report("active-console", fmt.Sprintf("active console is %v, expected %v", vfName(activeCons), vfInstName(wantCons)))
		return
	}
	if (wantTTY == nil) != (activeTTY == nil) || (wantTTY != nil && interface{}(activeTTY) != interface{}(wantTTY.drv)) {
		report("active-tty", fmt.Sprintf("active terminal is %v, expected %v", vfName(activeTTY), vfInstName(wantTTY)))
		return
	}
	if wantCons == nil || wantTTY == nil {
		if _, isTTY := out.sinkAfter.(tty.Device); isTTY {
			report("sink-without-pair", "kernel log sink is a terminal although no console/terminal pair came up")
		}
		run.Distinct(fmt.Sprintf("nopair c=%v t=%v n=%d", wantCons != nil, wantTTY != nil, len(wantActive)))
		return
	}
	// --- the pair: attached, active, sink
	if out.sinkAfter != io.Writer(activeTTY) {
		report("sink-not-tty", "kernel log output does not go to the active terminal")
	}
	if activeTTY.State() != tty.StateActive {
		report("tty-not-active", "the active terminal is not in the active state")
	}
	// what must have been logged, independent of the exact HAL wording: per probed driver tokens
	var halTokens []string
	for _, in := range probed {
		if in.d.Outcome == 3 && in.d.Kind != 2 {
			continue
		}
		halTokens = append(halTokens, in.drv.DriverName()+"(")
		if in.d.Kind != 2 {
			switch in.d.Outcome {
			case 1:
				halTokens = append(halTokens, "hello-from-"+in.name)
			case 4:
				halTokens = append(halTokens, "partial-"+in.name)
			case 2:
				halTokens = append(halTokens, "boom-"+in.name)
			}
		}
	}
	pos := ""
	for i, in := range probed {
		if in == wantCons {
			pos += fmt.Sprintf("c%d", i)
		}
		if in == wantTTY {
			pos += fmt.Sprintf("t%d", i)
		}
	}
	switch tt := wantTTY.drv.(type) {
	case *vfRecTTY:
		if tt.cons != activeCons {
			report("tty-not-attached", "the active terminal is not attached to the active console")
		}
		if len(tt.calls) < 2 || tt.calls[0] != "attach" {
			report("tty-lifecycle", fmt.Sprintf("terminal life-cycle calls: %v", tt.calls))
		}
		if class, desc := vfCheckStream(tt.buf.Bytes(), out.pre, halTokens, insts); class != "" {
			report(class, desc)
		}
		run.Distinct(fmt.Sprintf("rec early=%d n=%d %s", c.PreLog, len(wantActive), pos))
	case *vfTeeVT:
		// The shipped terminal behind a tee that records every byte it is handed (before or after it is attached). The
		// stream must satisfy the same exactly-once / in-order oracle as with the recording terminals, and the console
		// behind the real terminal must show what a fresh terminal - attached and active from the start - shows for
		// that stream (so output handed over before the terminal could display it is visible as a difference).
		cons := wantCons.drv.(*vfCons)
		stream := tt.rec.Bytes()
		if class, desc := vfCheckStream(stream, out.pre, halTokens, insts); class != "" {
			report(class, desc)
		}
		ref := tty.NewVT(4, 2)
		refCons := &vfCons{w: cons.w, h: cons.h, cells: make([]byte, len(cons.cells))}
		ref.AttachTo(refCons)
		ref.SetState(tty.StateActive)
		ref.Write(stream)
		if !bytes.Equal(refCons.cells, cons.cells) {
			report("vt-console-content", fmt.Sprintf("console behind the real terminal shows %q, a terminal fed the same log shows %q", vfTail(cons.cells), vfTail(refCons.cells)))
		}
		run.Distinct(fmt.Sprintf("vt early=%d n=%d %s", c.PreLog, len(wantActive), pos))
	}
}

type vfCountSink struct{ n int }

func (c *vfCountSink) Write(p []byte) (int, error) { c.n += len(p); return len(p), nil }

var vfCapacity int

// vfEarlyCapacity measures how many bytes the early buffer retains (the property speaks of "the early buffer's
// capacity", whatever it is): overfill it byte by byte with no sink, then count what the first sink receives.
func vfEarlyCapacity() int {
	if vfCapacity == 0 {
		kfmt.SetOutputSink(nil)
		io.Copy(ioutil.Discard, kfmt.GetOutputSink().(io.Reader))
		for i := 0; i < 1<<17; i++ {
			kfmt.Printf("x")
		}
		var c vfCountSink
		kfmt.SetOutputSink(&c)
		kfmt.SetOutputSink(nil)
		io.Copy(ioutil.Discard, kfmt.GetOutputSink().(io.Reader))
		vfCapacity = c.n
	}
	return vfCapacity
}

// vfLongestPrefixSuffix returns the length of the longest prefix of a that is a suffix of b (prefix function of a+sep+b).
func vfLongestPrefixSuffix(a, b []byte) int {
	if len(a) > len(b) {
		a = a[:len(b)]
	}
	t := make([]byte, 0, len(a)+1+len(b))
	t = append(append(append(t, a...), 0), b...)
	pi := make([]int, len(t))
	for i := 1; i < len(t); i++ {
		k := pi[i-1]
		for k > 0 && t[i] != t[k] {
			k = pi[k-1]
		}
		if t[i] == t[k] {
			k++
		}
		pi[i] = k
	}
	if len(t) == 0 {
		return 0
	}
	return pi[len(t)-1]
}

// vfTeeVT is the shipped terminal with a tap on its input.
type vfTeeVT struct {
	*tty.VT
	rec bytes.Buffer
}

func (t *vfTeeVT) Write(p []byte) (int, error) {
	t.rec.Write(p)
	return t.VT.Write(p)
}

func (t *vfTeeVT) WriteByte(b byte) error {
	t.rec.WriteByte(b)
	return t.VT.WriteByte(b)
}

// vfCheckStream: got = suffix(pre) ++ bring-up messages ++ post
func vfCheckStream(got, pre []byte, halTokens []string, insts []*vfInst) (string, string) {
	if !bytes.HasSuffix(got, []byte(vfPost)) {
		return "late-output", fmt.Sprintf("terminal output does not end with the output logged after detection: %q", vfTail(got))
	}
	body := got[:len(got)-len(vfPost)]
	if bytes.Contains(body, []byte("<post-")) {
		return "late-output-duplicated", "output logged after detection appears twice"
	}
	// the early log on the terminal is the longest prefix of the output that is a suffix of what was logged before
	// detection (the records are numbered, so nothing else can look like them); whatever the bring-up itself logs -
	// in whatever wording, before or between the driver messages - comes after it
	hStart := vfLongestPrefixSuffix(body, pre)
	early, hal := body[:hStart], body[hStart:]
	if i := bytes.Index(hal, []byte("<e")); i >= 0 {
		return "early-log", fmt.Sprintf("early log records appear on the terminal out of place (after %d in-order bytes): a record was lost, repeated or reordered: %q", len(early), vfTail(hal[i:]))
	}
	capacity := vfEarlyCapacity()
	if len(pre)+len(hal) <= capacity && len(early) != len(pre) {
		return "early-log-lost", fmt.Sprintf("%d of %d early bytes reached the terminal although the early buffer was not full", len(early), len(pre))
	}
	if len(early) < len(pre) && len(early)+len(hal) < capacity {
		return "early-log-lost", fmt.Sprintf("only %d early bytes reached the terminal; the buffer retains %d bytes and the bring-up messages take %d", len(early), capacity, len(hal))
	}
	if len(early) > capacity {
		return "early-log-capacity", fmt.Sprintf("%d early bytes on the terminal, more than the buffer capacity", len(early))
	}
	pos := 0
	for _, tk := range halTokens {
		i := bytes.Index(hal[pos:], []byte(tk))
		if i < 0 {
			return "bring-up-log", fmt.Sprintf("token %q missing or out of order in the bring-up log %q", tk, vfTail(hal))
		}
		pos += i + len(tk)
	}
	// attribution: a complete bring-up line speaks for one driver. A line that carries the name token of two
	// different drivers attributes one driver's outcome to another (lines after an unterminated "partial-" message
	// legitimately continue with the next driver's text and are exempt).
	for _, line := range bytes.Split(hal, []byte("\n")) {
		if bytes.Contains(line, []byte("partial-")) {
			continue
		}
		named := map[string]bool{}
		for _, in := range insts {
			if tk := in.drv.DriverName() + "("; bytes.Contains(line, []byte(tk)) {
				named[tk] = true
			}
		}
		if len(named) > 1 {
			return "bring-up-log-attribution", fmt.Sprintf("one bring-up line names %d different drivers: %q", len(named), vfTail(line))
		}
	}
	for _, in := range insts {
		for _, pfx := range []string{"hello-from-", "boom-", "partial-"} {
			if n := bytes.Count(hal, []byte(pfx+in.name)); n > 1 {
				return "bring-up-log-duplicated", fmt.Sprintf("%q appears %d times", pfx+in.name, n)
			}
		}
	}
	return "", ""
}

func vfName(d interface{}) string {
	if d == nil {
		return "none"
	}
	if n, ok := d.(device.Driver); ok {
		return n.DriverName()
	}
	return fmt.Sprintf("%T", d)
}

func vfInstName(in *vfInst) string {
	if in == nil {
		return "none"
	}
	return in.name
}

func vfTail(b []byte) string {
	if len(b) > 160 {
		return "..." + string(b[len(b)-160:])
	}
	return string(b)
}

func TestVerifC16Hal(t *testing.T) {
	run := verifrt.Start("C16")
	var rp vfHalCase
	if run.Replaying(&rp) {
		vfHalRun(run, rp)
		run.Finish(true, "replay", "replay")
		return
	}
	orders := []int{-128, 0, 127}
	capacity := vfEarlyCapacity() // measured, not assumed (2047 on the pinned tree)
	preLogs := []int{0, 10, capacity + capacity/2}
	maxN := 3
	if run.Thorough() {
		orders = []int{-128, -127, 0, 127}
		preLogs = []int{0, 10, capacity - 7, capacity + capacity/2}
	}
	// per-driver options: (kind, outcome)
	type opt struct{ kind, outcome int }
	var opts []opt
	for _, k := range []int{0, 1, 3} {
		for _, o := range []int{0, 1, 2, 3, 4} {
			if k == 3 && (o == 1 || o == 4) {
				continue
			}
			opts = append(opts, opt{k, o})
		}
	}
	opts = append(opts, opt{2, 0})
	idx := 0
	for n := 1; n <= maxN; n++ {
		dims := make([]int, 2*n)
		for i := 0; i < n; i++ {
			dims[2*i] = len(opts)
			dims[2*i+1] = len(orders)
		}
		verifrt.Product(dims, func(v []int) bool {
			idx++
			if !run.Mine(idx) {
				return true
			}
			var drv []vfDrv
			for i := 0; i < n; i++ {
				drv = append(drv, vfDrv{Kind: opts[v[2*i]].kind, Order: orders[v[2*i+1]], Outcome: opts[v[2*i]].outcome})
			}
			// the enumeration over ordered tuples already contains every registration permutation of every multiset
			for _, pl := range preLogs {
				c := vfHalCase{Drivers: drv, PreLog: pl}
				run.Sample(c)
				vfHalRun(run, c)
			}
			return true
		})
	}
	if run.Thorough() {
		// four drivers, reduced alphabet: console ok / console failing / recorder / real VT / other, orders {-128, 0}
		o4 := []opt{{0, 0}, {0, 2}, {1, 1}, {2, 0}, {3, 0}, {1, 3}}
		dims := []int{len(o4), 2, len(o4), 2, len(o4), 2, len(o4), 2}
		ord := []int{-128, 0}
		verifrt.Product(dims, func(v []int) bool {
			idx++
			if !run.Mine(idx) {
				return true
			}
			var drv []vfDrv
			for i := 0; i < 4; i++ {
				drv = append(drv, vfDrv{Kind: o4[v[2*i]].kind, Order: ord[v[2*i+1]], Outcome: o4[v[2*i]].outcome})
			}
			for _, pl := range []int{10, 3000} {
				vfHalRun(run, vfHalCase{Drivers: drv, PreLog: pl})
			}
			return true
		})
	}
	run.Finish(true, fmt.Sprintf("every ordered tuple (= every registration permutation) of <=%d drivers over kind {console, recording terminal, real tty.VT, other} x outcome {ok, ok+log line, init fails, probe nil, ok+partial line} x order %v x early log %v bytes (4 drivers with a reduced alphabet in thorough)", maxN, orders, preLogs),
		"distinct by (terminal kind, early-log size, number of active drivers, probe positions of the winning console and terminal)")
}
