//go:build verif
// +build verif

package device

// VerifSetDrivers replaces the registered driver list and returns the old one
// (overlay-only shim used by the C16 harness; the shipped list would touch
// real hardware seams).
func VerifSetDrivers(l DriverInfoList) DriverInfoList {
	old := registeredDrivers
	registeredDrivers = l
	return old
}
