//go:build verif
// +build verif

package vmm

// Software MMU shared by the C04, C05 and C06 harnesses.
//
// "RAM" is an mmap'ed arena; frame number = host address >> 12, so code that
// dereferences a physical address directly (PageDirectoryTable.Map pokes the
// active root's last entry that way) works unmodified. ptePtrFn is bound to a
// software page walk from the simulated CR3 - four levels, present bit checked
// at each, every table address range-checked against the arena - which is how
// the recursive-mapping virtual addresses produced by walk() are resolved by
// the hardware. A non-present or out-of-arena step is "the kernel would have
// page-faulted here": it is raised as a Go panic carrying *vfMMUFault.

import (
	"fmt"
	"syscall"
	"unsafe"

	"github.com/ProjectSerenity/firefly/kernel"
	"github.com/ProjectSerenity/firefly/kernel/mm"
)

const vfFrameMask = uintptr(0x000ffffffffff000)

type vfMMUFault struct{ msg string }

func (f *vfMMUFault) Error() string { return f.msg }

type vfMMU struct {
	arena    []byte
	base     uintptr
	pages    int
	fd       int // memfd backing (C06) or -1
	next     int // bump allocator cursor (page index)
	failAt   int // fail the failAt-th allocation since allocs was reset (1-based); 0 = never
	allocs   int
	cr3      uintptr
	flushed  []uintptr
	lastVA   uintptr
	lastHost uintptr
	tmpAlias mm.Page
}

var vfErrInjected = &kernel.Error{Module: "verif", Message: "injected frame allocation failure"}

func vfSysMmap(addr uintptr, length int, prot, flags int, fd int, off int64) (uintptr, error) {
	r, _, e := syscall.Syscall6(syscall.SYS_MMAP, addr, uintptr(length), uintptr(prot), uintptr(flags), uintptr(fd), uintptr(off))
	if e != 0 {
		return 0, e
	}
	return r, nil
}

func vfNewMMU(pages int, memfd bool) *vfMMU {
	m := &vfMMU{pages: pages, fd: -1}
	var base uintptr
	var err error
	if memfd {
		name := []byte("verif-ram\x00")
		fd, _, e := syscall.Syscall(319 /* memfd_create */, uintptr(unsafe.Pointer(&name[0])), 0, 0)
		if e != 0 {
			panic("memfd_create: " + e.Error())
		}
		if err := syscall.Ftruncate(int(fd), int64(pages)*4096); err != nil {
			panic(err)
		}
		m.fd = int(fd)
		base, err = vfSysMmap(0, pages*4096, syscall.PROT_READ|syscall.PROT_WRITE, syscall.MAP_SHARED, m.fd, 0)
	} else {
		base, err = vfSysMmap(0, pages*4096, syscall.PROT_READ|syscall.PROT_WRITE, syscall.MAP_ANON|syscall.MAP_PRIVATE, -1, 0)
	}
	if err != nil {
		panic(err)
	}
	m.base = base
	m.arena = *(*[]byte)(unsafe.Pointer(&struct {
		p    uintptr
		l, c int
	}{base, pages * 4096, pages * 4096}))
	return m
}

// reset fills the used part of RAM with 0xA5 (so a table that is not cleared
// shows up as garbage entries) and rewinds the allocator.
func (m *vfMMU) reset() {
	used := m.next
	if used == 0 || used > m.pages {
		used = m.pages
	}
	b := m.arena[:used*4096]
	for i := range b {
		b[i] = 0xa5
	}
	m.next, m.allocs, m.failAt, m.flushed = 0, 0, 0, nil
}

func (m *vfMMU) alloc() (mm.Frame, *kernel.Error) {
	m.allocs++
	if m.failAt != 0 && m.allocs == m.failAt {
		return mm.InvalidFrame, vfErrInjected
	}
	if m.next >= m.pages {
		panic("verif: simulated RAM exhausted")
	}
	f := mm.Frame((m.base >> 12) + uintptr(m.next))
	m.next++
	return f, nil
}

func (m *vfMMU) in(p uintptr) bool { return p >= m.base && p+8 <= m.base+uintptr(len(m.arena)) }

// walkFrom is the independent software walk: returns the physical address va
// translates to under root, the leaf entry, and whether every level is present.
func (m *vfMMU) walkFrom(root, va uintptr) (phys uintptr, leaf uintptr, ok bool) {
	table := root
	for lvl := 0; lvl < 4; lvl++ {
		idx := (va >> (39 - 9*uint(lvl))) & 511
		ea := table + idx*8
		if !m.in(ea) {
			return 0, 0, false
		}
		e := *(*uintptr)(unsafe.Pointer(ea))
		if e&1 == 0 {
			return 0, e, false
		}
		leaf = e
		table = e & vfFrameMask
	}
	return table + (va & 4095), leaf, true
}

func (m *vfMMU) translate(va uintptr) uintptr {
	p, _, ok := m.walkFrom(m.cr3, va)
	if !ok {
		panic(&vfMMUFault{fmt.Sprintf("access to virtual address %#x page-faults (a page-table level is not present)", va)})
	}
	if !m.in(p &^ 7) {
		panic(&vfMMUFault{fmt.Sprintf("virtual address %#x translates to %#x which is outside RAM", va, p)})
	}
	return p
}

type vfSeams struct {
	activePDT, nextAddr func(uintptr) uintptr
}

// install binds the vmm seams to this MMU. The returned function restores them.
func (m *vfMMU) install() func() {
	sActive, sSwitch, sPtePtr, sNext, sFlush := activePDTFn, switchPDTFn, ptePtrFn, nextAddrFn, flushTLBEntryFn
	sMapTmp, sUnmap, sMap, sReserve, sTranslate := mapTemporaryFn, unmapFn, mapFn, earlyReserveRegionFn, translateFn
	activePDTFn = func() uintptr { return m.cr3 }
	switchPDTFn = func(a uintptr) { m.cr3 = a }
	ptePtrFn = func(ea uintptr) unsafe.Pointer {
		m.lastVA = ea
		m.lastHost = m.translate(ea)
		return unsafe.Pointer(m.lastHost)
	}
	// Map computes the next table's address from the entry *pointer* (the host
	// pointer under the seam): recognise that value and redo the computation
	// on the virtual entry address, as the hardware would see it.
	nextAddrFn = func(a uintptr) uintptr {
		if a>>9 == m.lastHost {
			return m.translate(m.lastVA << 9)
		}
		return m.translate(a)
	}
	flushTLBEntryFn = func(a uintptr) { m.flushed = append(m.flushed, a) }
	mm.SetFrameAllocator(m.alloc)
	// The temporary mapping is established by the real MapTemporary; callers get the
	// host alias of whatever the page tables now translate the temporary page to, so
	// a wrong temporary mapping makes their writes land in the wrong frame.
	mapTemporaryFn = func(f mm.Frame) (mm.Page, *kernel.Error) {
		if _, err := MapTemporary(f); err != nil {
			return 0, err
		}
		m.tmpAlias = mm.Page(m.translate(tempMappingAddr) >> 12)
		return m.tmpAlias, nil
	}
	unmapFn = func(p mm.Page) *kernel.Error {
		if p == m.tmpAlias && m.in(p.Address()) {
			return Unmap(mm.PageFromAddress(tempMappingAddr))
		}
		return Unmap(p)
	}
	mapFn = Map
	earlyReserveRegionFn = EarlyReserveRegion
	translateFn = Translate
	return func() {
		activePDTFn, switchPDTFn, ptePtrFn, nextAddrFn, flushTLBEntryFn = sActive, sSwitch, sPtePtr, sNext, sFlush
		mapTemporaryFn, unmapFn, mapFn, earlyReserveRegionFn, translateFn = sMapTmp, sUnmap, sMap, sReserve, sTranslate
	}
}

// newRoot allocates a root table with the recursive slot installed by hand
// (this is what the boot code in rt0 does before Go code runs).
func (m *vfMMU) newRoot() mm.Frame {
	root, _ := m.alloc()
	kernel.Memset(root.Address(), 0, 4096)
	*(*uintptr)(unsafe.Pointer(root.Address() + 511*8)) = root.Address() | 3
	return root
}

func vfCanon(va uintptr) uintptr {
	if va&(1<<47) != 0 {
		va |= 0xffff000000000000
	}
	return va
}

// scanLeaves returns every present leaf reachable from root (excluding the
// recursive slot): page address -> entry. problem != "" if a table pointer
// leaves RAM.
func (m *vfMMU) scanLeaves(root uintptr) (leaves map[uintptr]uintptr, tables []uintptr, problem string) {
	leaves = map[uintptr]uintptr{}
	var scan func(table uintptr, lvl int, va uintptr)
	scan = func(table uintptr, lvl int, va uintptr) {
		tables = append(tables, table)
		for i := uintptr(0); i < 512; i++ {
			if lvl == 0 && i == 511 {
				continue
			}
			e := *(*uintptr)(unsafe.Pointer(table + i*8))
			if e&1 == 0 {
				continue
			}
			nva := va | i<<(39-9*uint(lvl))
			if lvl == 3 {
				leaves[vfCanon(nva)] = e
				continue
			}
			if e&uintptr(FlagHugePage) != 0 {
				leaves[vfCanon(nva)|uintptr(lvl+1)] = e // tagged: a huge-page entry at this level
				continue
			}
			nt := e & vfFrameMask
			if !m.in(nt) || problem != "" {
				if problem == "" {
					problem = fmt.Sprintf("level-%d entry %d (%#x) points to a table outside RAM", lvl, i, e)
				}
				return
			}
			scan(nt, lvl+1, nva)
		}
	}
	if !m.in(root) {
		return leaves, nil, fmt.Sprintf("root %#x outside RAM", root)
	}
	scan(root, 0, 0)
	return
}
