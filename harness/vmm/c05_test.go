//go:build verif
// +build verif

package vmm

// C05 — the kernel address space maps each loaded section exactly, W^X.
// Bounded-exhaustive enumeration of ELF section sets x early reservations x
// allocation-failure points through the real setupPDTForKernel on the software
// MMU; the new root is scanned exhaustively (every present leaf) and compared
// with the reference.

import (
	"encoding/binary"
	"fmt"
	"testing"
	"unsafe"

	"github.com/ProjectSerenity/firefly/kernel"
	"github.com/ProjectSerenity/firefly/kernel/internal/verifrt"
	"github.com/ProjectSerenity/firefly/kernel/mm"
	"github.com/ProjectSerenity/firefly/kernel/multiboot"
)

type vf05Sec struct {
	Addr  uint64 `json:"addr"`
	Size  uint64 `json:"size"`
	Flags uint32 `json:"flags"`
}

type vf05Case struct {
	Secs   []vf05Sec `json:"secs"`
	Rsv    int       `json:"reservations"`
	// frames behind the reserved pages, in the order the pages were reserved (the window grows downwards); when empty
	// reservation i is backed by frame 0x5000+i
	RsvFrames []uint64 `json:"reservation_frames,omitempty"`
	FailAt int       `json:"fail_at"`
	KOff   uint64    `json:"kernel_offset"`
	// ViaDecoder: the sections are encoded as the ELF-sections tag of a multiboot information block and reach
	// setupPDTForKernel through the real multiboot.VisitElfSections instead of the visitElfSectionsFn seam
	ViaDecoder bool `json:"via_multiboot_decoder,omitempty"`
	// Many > 0: Secs is generated - Many one-page-apart sections of alternating flags starting at Secs[0].Addr
	Many int `json:"many_sections,omitempty"`
	// RsvHistory: the boot-time reservation history, in order: "ok" reserves and maps one page (frame 0x5000+i), "rej:max" /
	// "rej:over" / "rej:wrap" are requests that cannot fit (largest page multiple / one page more than what is left / 2^64-1)
	// and whose error the caller handles. Only the accepted reservations have to be carried over.
	RsvHistory []string `json:"reservation_history,omitempty"`
}

// vf05Block encodes the sections (plus the string table section the format requires) as a multiboot info block.
func vf05Block(secs []vf05Sec) ([]uint64, []byte) {
	le := binary.LittleEndian
	strtab := []byte{0, '.', 's', 0}
	n := len(secs) + 1
	payload := make([]byte, 12, 12+64*n)
	le.PutUint32(payload[0:], uint32(n))
	le.PutUint32(payload[4:], 64)
	le.PutUint32(payload[8:], uint32(n-1))
	mk := func(name uint32, flags, addr, size uint64) {
		h := make([]byte, 64)
		le.PutUint32(h[0:], name)
		le.PutUint32(h[4:], 1)
		le.PutUint64(h[8:], flags)
		le.PutUint64(h[16:], addr)
		le.PutUint64(h[32:], size)
		payload = append(payload, h...)
	}
	for _, sc := range secs {
		mk(1, uint64(sc.Flags), sc.Addr, sc.Size)
	}
	// the string table is not loaded in the kernel's range (address below every kernel offset used here)
	mk(0, 0, uint64(uintptr(unsafe.Pointer(&strtab[0]))), 0)
	b := make([]byte, 8, 24+len(payload))
	hdr := make([]byte, 8)
	le.PutUint32(hdr[0:], 9)
	le.PutUint32(hdr[4:], uint32(8+len(payload)))
	b = append(append(b, hdr...), payload...)
	for len(b)%8 != 0 {
		b = append(b, 0)
	}
	end := make([]byte, 8)
	le.PutUint32(end[4:], 8)
	b = append(b, end...)
	le.PutUint32(b[0:], uint32(len(b)))
	backing := make([]uint64, (len(b)+7)/8)
	copy((*[1 << 30]byte)(unsafe.Pointer(&backing[0]))[:len(b)], b)
	return backing, strtab
}

const vf05KOff = uint64(0xffff800000000000)

func vf05Run(run *verifrt.Run, m *vfMMU, c vf05Case) {
	run.Case()
	report := func(class, msg string) {
		run.Violate(class, class+" "+verifrt.JSONKey(c), fmt.Sprintf("%s: %s", verifrt.JSONKey(c), msg), c)
	}
	m.reset()
	rootA := m.newRoot()
	m.cr3 = rootA.Address()
	earlyReserveLastUsed = tempMappingAddr
	protectReservedZeroedPage = false
	rsvFrames := map[uintptr]uintptr{}
	if len(c.RsvFrames) != 0 {
		c.Rsv = len(c.RsvFrames)
	}
	for i := 0; i < c.Rsv; i++ {
		a, err := EarlyReserveRegion(4096)
		if err != nil {
			panic(err)
		}
		f := mm.Frame(0x5000 + i)
		if len(c.RsvFrames) != 0 {
			f = mm.Frame(c.RsvFrames[i])
		}
		if err := Map(mm.PageFromAddress(a), f, FlagPresent|FlagRW); err != nil {
			panic("verif: cannot set up an early reservation: " + err.Message)
		}
		rsvFrames[a] = f.Address()
	}
	for _, h := range c.RsvHistory {
		if h == "ok" {
			a, err := EarlyReserveRegion(4096)
			if err != nil {
				panic(err)
			}
			f := mm.Frame(0x5000 + len(rsvFrames))
			if err := Map(mm.PageFromAddress(a), f, FlagPresent|FlagRW); err != nil {
				panic("verif: cannot set up an early reservation: " + err.Message)
			}
			rsvFrames[a] = f.Address()
			continue
		}
		size := ^uintptr(0) - 4095
		switch h {
		case "rej:over":
			size = earlyReserveLastUsed + 4096
		case "rej:wrap":
			size = ^uintptr(0)
		}
		if _, err := EarlyReserveRegion(size); err == nil {
			// accepting a request that cannot fit is C07's business; nothing defined to compare against here
			run.Note("EarlyReserveRegion(%#x) was accepted although it cannot fit; case skipped (see C07)", size)
			return
		}
	}
	if c.Many > 0 {
		base := c.Secs[0]
		c.Secs = nil
		for k := 0; k < c.Many; k++ {
			c.Secs = append(c.Secs, vf05Sec{base.Addr + uint64(k)*4096, 1 + uint64(k*37)%4096, uint32(k % 8)})
		}
	}
	saved := visitElfSectionsFn
	defer func() { visitElfSectionsFn = saved }()
	if c.ViaDecoder {
		backing, strtab := vf05Block(c.Secs)
		multiboot.SetInfoPtr(uintptr(unsafe.Pointer(&backing[0])))
		visitElfSectionsFn = multiboot.VisitElfSections
		defer func(b []uint64, s []byte) { _, _ = b, s }(backing, strtab) // keep both alive for the whole call
	} else {
		visitElfSectionsFn = func(v multiboot.ElfSectionVisitor) {
			for i, s := range c.Secs {
				v(fmt.Sprintf(".s%d", i), multiboot.ElfSectionFlag(s.Flags), uintptr(s.Addr), s.Size)
			}
		}
	}
	kernelPDT = PageDirectoryTable{}
	m.allocs = 0
	m.failAt = c.FailAt
	var pan interface{}
	var kerr *kernel.Error
	func() {
		defer func() { pan = recover() }()
		kerr = setupPDTForKernel(uintptr(c.KOff))
	}()
	failed := m.failAt != 0 && m.allocs >= m.failAt
	m.failAt = 0
	if pan != nil {
		report("panic", vfPanStr(pan))
		return
	}
	if failed {
		if kerr != vfErrInjected {
			report("allocation-failure-not-propagated", fmt.Sprintf("allocation %d failed, setupPDTForKernel returned %v", c.FailAt, vfErrStr(kerr)))
		}
		if m.cr3 != rootA.Address() {
			report("switched-despite-failure", "the address space was switched although initialisation failed")
		}
		run.Distinct(fmt.Sprintf("fail@%d", c.FailAt))
		return
	}
	if kerr != nil {
		report("unexpected-error", kerr.Message)
		return
	}
	if m.cr3 != kernelPDT.pdtFrame.Address() || m.cr3 == rootA.Address() {
		report("not-active", "the new address space is not the active one when initialisation returns")
		return
	}
	want := map[uintptr]uintptr{}
	for _, s := range c.Secs {
		if s.Addr < c.KOff || s.Size == 0 {
			continue
		}
		first := uintptr(s.Addr) &^ 4095
		last := uintptr(s.Addr+s.Size-1) &^ 4095
		frame := (uintptr(s.Addr-c.KOff) >> 12) << 12
		fl := uintptr(FlagPresent)
		if s.Flags&uint32(multiboot.ElfSectionExecutable) == 0 {
			fl |= uintptr(FlagNoExecute)
		}
		if s.Flags&uint32(multiboot.ElfSectionWritable) != 0 {
			fl |= uintptr(FlagRW)
		}
		for p := first; ; p += 4096 {
			want[p] = frame | fl
			frame += 4096
			if p == last {
				break
			}
		}
	}
	for a, f := range rsvFrames {
		want[a] = f | uintptr(FlagPresent|FlagRW)
	}
	got, _, prob := m.scanLeaves(m.cr3)
	if prob != "" {
		report("broken-tables", prob)
		return
	}
	for va, e := range want {
		g, ok := got[va]
		if !ok {
			report("page-not-mapped", fmt.Sprintf("page %#x is not mapped in the kernel address space, expected entry %#x", va, e))
			return
		}
		// only what the property speaks about is compared: the frame, present, writable, user-accessible and
		// no-execute; accessed/dirty/global/caching bits are the implementation's business. For reserved pages the
		// property only fixes the translation.
		rel := uintptr(vfFrameMask) | uintptr(FlagPresent) | uintptr(FlagRW) | uintptr(FlagUserAccessible) | uintptr(FlagNoExecute)
		if _, isRsv := rsvFrames[va]; isRsv {
			rel = uintptr(vfFrameMask) | uintptr(FlagPresent)
		}
		if g&rel != e&rel {
			class := "wrong-entry"
			if (g^e)&vfFrameMask == 0 {
				class = "wrong-permissions"
			}
			report(class, fmt.Sprintf("page %#x has entry %#x, expected %#x (frame %#x, P%s%s, never user-accessible)", va, g, e, e&vfFrameMask, map[bool]string{true: "+RW", false: ""}[e&2 != 0], map[bool]string{true: "+NX", false: ""}[e>>63 != 0]))
			return
		}
	}
	for va, e := range got {
		if _, ok := want[va]; !ok {
			report("stray-mapping", fmt.Sprintf("page %#x is mapped (entry %#x) although no in-range section or reservation covers it", va, e))
			return
		}
	}
	nx, rw := 0, 0
	for _, e := range want {
		if e>>63 != 0 {
			nx++
		}
		if e&2 != 0 {
			rw++
		}
	}
	run.Distinct(fmt.Sprintf("pages=%d nx=%d rw=%d rsv=%d secs=%d", len(want), nx, rw, c.Rsv, len(c.Secs)))
}

func TestVerifC05(t *testing.T) {
	run := verifrt.Start("C05")
	m := vfNewMMU(2600, false)
	restore := m.install()
	defer restore()
	savedCursor, savedPDT := earlyReserveLastUsed, kernelPDT
	defer func() { earlyReserveLastUsed, kernelPDT = savedCursor, savedPDT }()

	var rp vf05Case
	if run.Replaying(&rp) {
		vf05Run(run, m, rp)
		run.Finish(true, "replay", "replay")
		return
	}
	type shape struct {
		off, size uint64
		flags     uint32
	}
	// start offsets inside the page x sizes that make the section end just before / exactly at / one or two bytes
	// after a page boundary, over one to three pages (plus the one-byte section)
	starts := []uint64{0, 1, 0x10, 0x800, 0xff0, 0xfff}
	var shapes []shape
	for _, st := range starts {
		seen := map[uint64]bool{}
		sizes := []uint64{1, 2}
		for k := uint64(1); k <= 3; k++ {
			for _, e := range []int64{-1, 0, 1, 2} {
				if sz := int64(k*4096) - int64(st) + e; sz > 0 {
					sizes = append(sizes, uint64(sz))
				}
			}
		}
		for _, sz := range sizes {
			if seen[sz] {
				continue
			}
			seen[sz] = true
			for fl := uint32(0); fl < 8; fl++ {
				if !run.Thorough() && st != 0 && st != 0x10 && fl != 2 && fl != 5 && fl != 7 {
					continue // quick: all eight flag sets only on the two common start offsets
				}
				shapes = append(shapes, shape{st, sz, fl})
			}
		}
	}
	// bases: distinct pages so that sections never share a page with one another
	bases := []uint64{vf05KOff + 0x100000, vf05KOff + 0x200000, 0x100000 /* below the kernel offset */, vf05KOff, vf05KOff + 0x40000000 /* other P3 entry */}
	idx := 0
	one := func(c vf05Case) {
		idx++
		if run.Mine(idx) {
			run.Sample(c)
			vf05Run(run, m, c)
		}
	}
	// single sections: every shape x base x reservations
	for _, b := range bases {
		for _, sh := range shapes {
			for _, rsv := range []int{0, 1, 3} {
				one(vf05Case{Secs: []vf05Sec{{b + sh.off, sh.size, sh.flags}}, Rsv: rsv, KOff: vf05KOff})
			}
		}
	}
	// pairs: full product of shapes on two bases (thorough), a fixed 1-in-3 sub-lattice in quick
	for i, a := range shapes {
		for j, b := range shapes {
			if !run.Thorough() && (i+2*j)%23 != 0 {
				continue
			}
			one(vf05Case{Secs: []vf05Sec{{bases[0] + a.off, a.size, a.flags}, {bases[1] + b.off, b.size, b.flags}}, Rsv: 1, KOff: vf05KOff})
		}
	}
	// pair with one section below the offset / adjacent pages / three sections
	for i, a := range shapes {
		one(vf05Case{Secs: []vf05Sec{{bases[2] + a.off, a.size, a.flags}, {bases[0], 4096, 5}}, Rsv: 0, KOff: vf05KOff})
		next := (bases[0] + a.off + a.size + 4095) &^ 4095
		one(vf05Case{Secs: []vf05Sec{{bases[0] + a.off, a.size, a.flags}, {next, 4096, 3}, {bases[4], 1, uint32(i % 8)}}, Rsv: 2, KOff: vf05KOff})
	}
	// what backs the reserved window: every assignment of frames from a small alphabet to 1..4 reserved pages (ascending
	// and descending runs, runs with a foreign frame in the middle, repeated frames), with and without a section
	rsvAlpha := []uint64{0x300, 0x301, 0x302, 0x303, 0x180}
	var rsvRec func(cur []uint64)
	rsvRec = func(cur []uint64) {
		if len(cur) > 0 {
			fr := append([]uint64(nil), cur...)
			one(vf05Case{Secs: []vf05Sec{{bases[0] + 0x10, 4096, 3}}, RsvFrames: fr, KOff: vf05KOff})
			if len(cur) >= 3 {
				one(vf05Case{RsvFrames: fr, KOff: vf05KOff})
			}
		}
		if len(cur) == 4 {
			return
		}
		for _, f := range rsvAlpha {
			rsvRec(append(cur, f))
		}
	}
	rsvRec(nil)
	// reservation histories that contain rejected requests: every sequence of <=3 (thorough: 4) requests over
	// {accepted, three kinds of request that cannot fit} with at least one rejection, with and without a section
	histLen := 3
	if run.Thorough() {
		histLen = 4
	}
	var histRec func(cur []string, rej bool)
	histRec = func(cur []string, rej bool) {
		if rej {
			h := append([]string(nil), cur...)
			one(vf05Case{Secs: []vf05Sec{{bases[0] + 0x10, 4096, 3}}, RsvHistory: h, KOff: vf05KOff})
			one(vf05Case{RsvHistory: h, KOff: vf05KOff})
		}
		if len(cur) == histLen {
			return
		}
		for _, k := range []string{"ok", "rej:max", "rej:over", "rej:wrap"} {
			histRec(append(cur, k), rej || k != "ok")
		}
	}
	histRec(nil, false)
	// through the real multiboot decoder instead of the seam: the single-section shapes on one base, and section tables
	// of up to 1100 (thorough: 2100) headers whose last sections are loaded ones
	for _, sh := range shapes {
		one(vf05Case{Secs: []vf05Sec{{bases[0] + sh.off, sh.size, sh.flags}}, Rsv: 1, KOff: vf05KOff, ViaDecoder: true})
	}
	manyN := []int{3, 64, 1023, 1024, 1025, 1100}
	if run.Thorough() {
		manyN = append(manyN, 2100)
	}
	for _, n := range manyN {
		one(vf05Case{Secs: []vf05Sec{{Addr: bases[0]}}, Many: n, KOff: vf05KOff, ViaDecoder: true})
	}
	// no sections at all (zero-sized sections are filtered out by the multiboot decoder, C10)
	one(vf05Case{KOff: vf05KOff})
	// allocation failure at each allocation point of representative configurations
	for f := 1; f <= 14; f++ {
		one(vf05Case{Secs: []vf05Sec{{bases[0], 4097, 6}, {bases[1] + 0x10, 1, 3}}, Rsv: 1, FailAt: f, KOff: vf05KOff})
		one(vf05Case{Secs: []vf05Sec{{bases[4], 4096, 2}}, Rsv: 3, FailAt: f, KOff: vf05KOff})
		one(vf05Case{Rsv: 2, FailAt: f, KOff: vf05KOff})
	}
	if run.Thorough() {
		// every single section shape with an allocation failure at every point; three-section sets over a reduced shape set
		for _, sh := range shapes {
			for f := 1; f <= 8; f++ {
				one(vf05Case{Secs: []vf05Sec{{bases[0] + sh.off, sh.size, sh.flags}}, Rsv: 1, FailAt: f, KOff: vf05KOff})
			}
		}
		var small []shape
		for _, sz := range []uint64{1, 4096, 4097} {
			for _, st := range starts {
				for _, fl := range []uint32{0, 1, 2, 4, 7} {
					small = append(small, shape{st, sz, fl})
				}
			}
		}
		for _, a := range small {
			for _, b := range small {
				for _, c3 := range small {
					one(vf05Case{Secs: []vf05Sec{{bases[0] + a.off, a.size, a.flags}, {bases[1] + b.off, b.size, b.flags}, {bases[4] + c3.off, c3.size, c3.flags}}, Rsv: 3, KOff: vf05KOff})
				}
			}
		}
		// many-page sections
		for _, pages := range []uint64{16, 511, 512, 513} {
			for fl := uint32(0); fl < 8; fl++ {
				one(vf05Case{Secs: []vf05Sec{{bases[4], pages * 4096, fl}, {bases[4] + 0x10000000 + 0x10, pages*4096 - 0x20, 7 - fl}}, Rsv: 1, KOff: vf05KOff})
			}
		}
	}
	// other kernel offsets (any P4 index below the recursive window)
	for _, koff := range []uint64{0xffff808000000000, 0x100000} {
		for _, sh := range shapes {
			one(vf05Case{Secs: []vf05Sec{{koff + 0x200000 + sh.off, sh.size, sh.flags}, {koff - 0x100000 + 0x10, 100, 7}}, Rsv: 1, KOff: koff})
		}
	}
	run.Finish(true, "every single section over the shape set (start offset {0,1,0x10,0x800,0xff0,0xfff} x sizes ending one byte before / at / one / two bytes after a page boundary over 1-3 pages x W/A/X flag sets) x 5 bases (below / at / above the kernel offset, second P3 entry) x reservations {0,1,3}; the same shapes and section tables of 3..1100 headers through the real multiboot decoder; every assignment of 5 frames (two runs and a foreign frame) to 1-4 reserved pages; every reservation history of <=3 (thorough: 4) requests over {accepted, 3 kinds of request that cannot fit and is rejected}; section pairs (full product in thorough, a fixed 1-in-23 sub-lattice in quick); adjacent-page triples; allocation failure at each of the first 14 allocations of 3 configurations (thorough: at each of the first 8 allocations of every single-section shape; 27k three-section sets; sections of 16/511/512/513 pages); 3 kernel offsets",
		"distinct by (mapped pages, NX pages, RW pages, reservations, sections) outcome class")
}
