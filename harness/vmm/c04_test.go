//go:build verif
// +build verif

package vmm

// C04 — page-table operations implement exactly the requested translation.
// Explicit-state search over the real Map / Unmap / PageDirectoryTable.Map /
// Unmap / Activate / MapRegion / IdentityMapRegion on the software MMU. A state
// is the content of simulated RAM (+CR3, allocator cursor, reservation cursor);
// successors are produced by replaying the shortest history on a re-initialised
// arena plus one operation. After every operation both address spaces are
// scanned exhaustively and compared with the reference model.

import (
	"crypto/sha1"
	"fmt"
	"sort"
	"strings"
	"testing"
	"unsafe"

	"github.com/ProjectSerenity/firefly/kernel"
	"github.com/ProjectSerenity/firefly/kernel/internal/verifrt"
	"github.com/ProjectSerenity/firefly/kernel/mm"
)

type vf04Op struct {
	Kind  string `json:"kind"` // map unmap amap aunmap bmap bunmap activate mapregion identity
	Page  uint64 `json:"page"`
	Frame uint64 `json:"frame"`
	Flags uint64 `json:"flags"`
	Size  uint64 `json:"size"`
	Fail  int    `json:"fail"` // k-th frame allocation of this op fails (0 = none)
}

func (o vf04Op) String() string {
	return fmt.Sprintf("%s(p=%#x f=%#x fl=%#x sz=%d fail=%d)", o.Kind, o.Page, o.Frame, o.Flags, o.Size, o.Fail)
}

type vf04Replay struct {
	Start string   `json:"start"`
	Ops   []vf04Op `json:"ops"`
}

type vf04Mapping struct {
	frame uint64
	flags uint64
}

type vf04World struct {
	m     *vfMMU
	rootA mm.Frame
	pdtB  PageDirectoryTable
	ref   [2]map[uint64]vf04Mapping // page -> mapping; 0 = A, 1 = B
	huge  map[uint64]bool           // pages below a planted huge-page entry (space A)
}

var (
	vf04Pages = []uint64{0, 1, 512, 512 * 512, 512 * 512 * 512, uint64(0xffff800000000000 >> 12), uint64(tempMappingAddr >> 12)}
	vf04Frames = []uint64{0, 0x1234, 1<<40 - 1}
	vf04Flags  = []uint64{uint64(FlagPresent), uint64(FlagPresent | FlagRW), uint64(FlagPresent|FlagRW) | uint64(FlagNoExecute), uint64(FlagPresent|FlagUserAccessible) | uint64(FlagCopyOnWrite), 0}
)

func (w *vf04World) active() int {
	if w.m.cr3 == w.rootA.Address() {
		return 0
	}
	return 1
}

func (w *vf04World) roots() [2]uintptr {
	return [2]uintptr{w.rootA.Address(), w.pdtB.pdtFrame.Address()}
}

// vf04NewWorld builds a start state with the real operations; if that already
// violates an oracle the message is returned (it is a violation found on the
// shortest possible history, not a harness failure).
func vf04NewWorld(m *vfMMU, start string) (*vf04World, string) {
	m.reset()
	earlyReserveLastUsed = tempMappingAddr
	protectReservedZeroedPage = false
	w := &vf04World{m: m}
	w.ref[0] = map[uint64]vf04Mapping{}
	w.ref[1] = map[uint64]vf04Mapping{}
	w.huge = map[uint64]bool{}
	w.rootA = m.newRoot()
	m.cr3 = w.rootA.Address()
	fb, _ := m.alloc()
	var initErr *kernel.Error
	var initPan interface{}
	func() {
		defer func() { initPan = recover() }()
		initErr = w.pdtB.Init(fb)
	}()
	if initPan != nil {
		return w, "PageDirectoryTable.Init of a second address space: " + vfPanStr(initPan)
	}
	if initErr != nil {
		return w, "PageDirectoryTable.Init of a second address space failed: " + initErr.Message
	}
	// Init must leave the new root empty except for the recursive slot
	if l, _, prob := m.scanLeaves(fb.Address()); prob != "" || len(l) != 0 {
		return w, fmt.Sprintf("PageDirectoryTable.Init left a new root with %d stray mappings (%s)", len(l), prob)
	}
	if e := *(*uintptr)(unsafe.Pointer(fb.Address() + 511*8)); e&vfFrameMask != fb.Address() || e&3 != 3 {
		return w, fmt.Sprintf("PageDirectoryTable.Init installed recursive entry %#x", e)
	}
	var setup []vf04Op
	// "<state>+hw" / "<state>+attr": the same start state, with bits in both roots' recursive slots that the
	// operations never set themselves - Accessed/Dirty as the MMU sets them while walking through the slot,
	// and NX/Global as a boot path may choose to. They must survive an operation on the inactive space.
	var rootBits uintptr
	if strings.HasSuffix(start, "+hw") {
		start, rootBits = strings.TrimSuffix(start, "+hw"), 0x60
	} else if strings.HasSuffix(start, "+attr") {
		start, rootBits = strings.TrimSuffix(start, "+attr"), 0x60|1<<8|1<<63
	}
	switch start {
	case "empty":
	case "all-mapped":
		for i, p := range vf04Pages[:6] {
			setup = append(setup, vf04Op{Kind: "map", Page: p, Frame: 0x100 + uint64(i), Flags: uint64(FlagPresent | FlagRW)})
		}
	case "deepest":
		setup = append(setup, vf04Op{Kind: "map", Page: 512*512*512 + 512*512 + 512 + 1, Frame: 0x77, Flags: uint64(FlagPresent)})
	case "b-built":
		setup = append(setup, vf04Op{Kind: "bmap", Page: 1, Frame: 0x200, Flags: uint64(FlagPresent | FlagRW)},
			vf04Op{Kind: "bmap", Page: 512, Frame: 0x201, Flags: uint64(FlagPresent)})
	case "b-active":
		setup = append(setup, vf04Op{Kind: "map", Page: 1, Frame: 0x300, Flags: uint64(FlagPresent)}, vf04Op{Kind: "activate"})
	case "huge":
		// a 2 MiB page planted by hand at P2 index 1 of (0,0,*,*): pages 512..1023 of space A sit below it
		setup = append(setup, vf04Op{Kind: "map", Page: 0, Frame: 0x400, Flags: uint64(FlagPresent | FlagRW)})
	default:
		panic("unknown start state " + start)
	}
	for _, o := range setup {
		if msg := w.apply(o); msg != "" {
			return w, "while building the start state with " + o.String() + ": " + msg
		}
	}
	if start == "huge" {
		// locate the P2 table of page 0 and plant the entry
		table := w.rootA.Address()
		for lvl := 0; lvl < 2; lvl++ {
			e := *(*uintptr)(unsafe.Pointer(table))
			table = e & vfFrameMask
		}
		*(*uintptr)(unsafe.Pointer(table + 8)) = (0x40000 << 12) | uintptr(FlagPresent|FlagRW|FlagHugePage)
		for p := uint64(512); p < 1024; p++ {
			w.huge[p] = true
		}
	}
	if rootBits != 0 {
		for _, r := range w.roots() {
			*(*uintptr)(unsafe.Pointer(r + 511*8)) |= rootBits
		}
	}
	m.allocs, m.flushed = 0, nil
	return w, ""
}

func (w *vf04World) scanAll() ([2]map[uintptr]uintptr, string) {
	var v [2]map[uintptr]uintptr
	for s, r := range w.roots() {
		l, _, prob := w.m.scanLeaves(r)
		if prob != "" {
			return v, fmt.Sprintf("space %c: %s", 'A'+s, prob)
		}
		v[s] = l
	}
	return v, ""
}

// tablesOf returns a copy of every table page reachable from root.
func (w *vf04World) tablesOf(root uintptr) map[uintptr][]byte {
	_, tables, _ := w.m.scanLeaves(root)
	out := map[uintptr][]byte{}
	for _, t := range tables {
		out[t] = append([]byte(nil), (*[4096]byte)(unsafe.Pointer(t))[:]...)
	}
	return out
}

// apply runs one operation on the real code and checks every oracle.
func (w *vf04World) apply(o vf04Op) string {
	m := w.m
	pre, prob := w.scanAll()
	if prob != "" {
		return "pre-state: " + prob
	}
	act := w.active()
	space := act
	switch o.Kind {
	case "amap", "aunmap":
		space = 0
	case "bmap", "bunmap":
		space = 1
	}
	var activeTables map[uintptr][]byte
	if space != act {
		activeTables = w.tablesOf(w.roots()[act])
	}
	cursorBefore := earlyReserveLastUsed
	m.flushed = nil
	m.allocs = 0
	m.failAt = o.Fail
	var err *kernel.Error
	var pan interface{}
	var retPage mm.Page
	pdtA := PageDirectoryTable{pdtFrame: w.rootA}
	page, frame, flags := mm.Page(o.Page), mm.Frame(o.Frame), PageTableEntryFlag(o.Flags)
	func() {
		defer func() { pan = recover() }()
		switch o.Kind {
		case "map":
			err = Map(page, frame, flags)
		case "unmap":
			err = Unmap(page)
		case "amap":
			err = pdtA.Map(page, frame, flags)
		case "aunmap":
			err = pdtA.Unmap(page)
		case "bmap":
			err = w.pdtB.Map(page, frame, flags)
		case "bunmap":
			err = w.pdtB.Unmap(page)
		case "activate":
			if act == 0 {
				w.pdtB.Activate()
			} else {
				pdtA.Activate()
			}
		case "mapregion":
			retPage, err = MapRegion(frame, uintptr(o.Size), flags)
		case "identity":
			retPage, err = IdentityMapRegion(frame, uintptr(o.Size), flags)
		default:
			panic("unknown op " + o.Kind)
		}
	}()
	allocFailed := o.Fail != 0 && m.allocs >= o.Fail
	m.failAt = 0
	if pan != nil {
		if f, ok := pan.(*vfMMUFault); ok {
			return "the kernel would page-fault: " + f.msg
		}
		return fmt.Sprint("panic: ", pan)
	}
	post, prob := w.scanAll()
	if prob != "" {
		return prob
	}
	isMap := o.Kind == "map" || o.Kind == "amap" || o.Kind == "bmap"
	isUnmap := o.Kind == "unmap" || o.Kind == "aunmap" || o.Kind == "bunmap"
	underHuge := space == 0 && w.huge[o.Page] && (isMap || isUnmap)

	switch {
	case allocFailed:
		if err != vfErrInjected {
			return fmt.Sprintf("a frame allocation failed but the operation returned %v", vfErrStr(err))
		}
		// no *other* page's translation may change; a multi-page region may have mapped a prefix
		if o.Kind != "mapregion" && o.Kind != "identity" {
			for s := 0; s < 2; s++ {
				if d := vfDiffLeaves(pre[s], post[s]); d != "" {
					return fmt.Sprintf("failed allocation, yet space %c changed: %s", 'A'+s, d)
				}
			}
		} else {
			w.syncRegionPrefix(o, post[act], act)
		}
	case underHuge:
		if err != errNoHugePageSupport {
			return fmt.Sprintf("operation on a page below a huge-page entry returned %v", vfErrStr(err))
		}
	case o.Kind == "activate":
		if w.active() == act {
			return "Activate did not switch the address space"
		}
	case isMap:
		if err != nil {
			return fmt.Sprintf("unexpected error %s", err.Message)
		}
		w.ref[space][o.Page] = vf04Mapping{o.Frame, o.Flags}
	case isUnmap:
		// ErrInvalidMapping is fine for a page whose upper tables do not exist
		if err != nil && err != ErrInvalidMapping {
			return fmt.Sprintf("unexpected error %s", err.Message)
		}
		if err == ErrInvalidMapping {
			if mp, ok := w.ref[space][o.Page]; ok && mp.flags&1 != 0 {
				return "Unmap of a mapped page reported an invalid mapping"
			}
		}
		delete(w.ref[space], o.Page)
	case o.Kind == "mapregion" || o.Kind == "identity":
		n := (o.Size + 4095) / 4096
		if err != nil {
			return fmt.Sprintf("unexpected error %s", err.Message)
		}
		first := o.Frame
		if o.Kind == "mapregion" {
			first = uint64(retPage)
			if uint64(cursorBefore)-uint64(earlyReserveLastUsed) != n*4096 || uint64(retPage.Address()) != uint64(earlyReserveLastUsed) {
				return fmt.Sprintf("MapRegion(size=%d) returned page %#x with the reservation cursor moving %#x -> %#x", o.Size, uint64(retPage), cursorBefore, earlyReserveLastUsed)
			}
		} else if uint64(retPage) != o.Frame {
			return fmt.Sprintf("IdentityMapRegion returned page %#x for frame %#x", uint64(retPage), o.Frame)
		}
		for i := uint64(0); i < n; i++ {
			w.ref[act][first+i] = vf04Mapping{o.Frame + i, o.Flags}
		}
	}

	// reference comparison: exhaustive scan of both spaces == reference, bit for bit
	for s := 0; s < 2; s++ {
		want := map[uintptr]uintptr{}
		for p, mp := range w.ref[s] {
			if mp.flags&1 != 0 {
				want[vfCanon(uintptr(p)<<12)] = (uintptr(mp.frame) << 12) | uintptr(mp.flags)
			}
		}
		if s == 0 && len(w.huge) > 0 {
			want[vfCanon(512<<12)|3] = (0x40000 << 12) | uintptr(FlagPresent|FlagRW|FlagHugePage)
		}
		for va, e := range want {
			if got, ok := post[s][va]; !ok {
				return fmt.Sprintf("space %c: page %#x is not mapped, expected entry %#x", 'A'+s, va, e)
			} else if got != e {
				return fmt.Sprintf("space %c: page %#x has entry %#x, expected %#x (frame and exactly the requested flag bits)", 'A'+s, va, got, e)
			}
		}
		for va, e := range post[s] {
			if _, ok := want[va]; !ok {
				return fmt.Sprintf("space %c: stray mapping %#x -> entry %#x (a page that was never mapped, or was unmapped, translates; or a new table was not cleared)", 'A'+s, va, e)
			}
		}
	}
	// Translate agrees with the reference for the active space
	actNow := w.active()
	probe := map[uint64]bool{}
	for _, p := range vf04Pages {
		probe[p] = true
	}
	for p := range w.ref[actNow] {
		probe[p] = true
	}
	for p := range probe {
		if actNow == 0 && w.huge[p] {
			continue
		}
		var pa uintptr
		var terr *kernel.Error
		var tpan interface{}
		func() {
			defer func() { tpan = recover() }()
			pa, terr = Translate((uintptr(p) << 12) + 0x123)
		}()
		if tpan != nil {
			return fmt.Sprintf("Translate(%#x) panicked: %v", p<<12, vfPanStr(tpan))
		}
		mp, mapped := w.ref[actNow][p]
		if mapped && mp.flags&1 != 0 {
			if terr != nil || pa != (uintptr(mp.frame)<<12)+0x123 {
				return fmt.Sprintf("Translate(%#x+0x123) = (%#x, %v), expected %#x", p<<12, pa, vfErrStr(terr), (uintptr(mp.frame)<<12)+0x123)
			}
		} else if terr != ErrInvalidMapping {
			return fmt.Sprintf("Translate of unmapped page %#x returned (%#x, %v)", p<<12, pa, vfErrStr(terr))
		}
	}
	// an operation on the inactive space leaves the active one bit-for-bit as it was
	if activeTables != nil {
		for t, old := range activeTables {
			now := (*[4096]byte)(unsafe.Pointer(t))[:]
			for i := range now {
				if now[i] != old[i] {
					return fmt.Sprintf("operation on the inactive address space changed byte %d of table %#x of the active one (entry %d: %#x)", i, t, i/8, *(*uintptr)(unsafe.Pointer(t + uintptr(i&^7))))
				}
			}
		}
	}
	// TLB: every page of the active space whose translation changed must have been invalidated
	if o.Kind != "activate" {
		for va := range vfChanged(pre[act], post[act]) {
			if va&0xfff != 0 {
				continue
			}
			found := false
			for _, f := range m.flushed {
				if vfCanon(f) == va {
					found = true
				}
			}
			if !found {
				return fmt.Sprintf("translation of page %#x changed in the active address space without a TLB invalidation (invalidated: %#x)", va, m.flushed)
			}
		}
	}
	return ""
}

// syncRegionPrefix: after an allocation failure inside a region mapping the
// pages mapped so far stay mapped; adopt them into the reference (they must be
// a correct prefix).
func (w *vf04World) syncRegionPrefix(o vf04Op, post map[uintptr]uintptr, act int) {
	n := (o.Size + 4095) / 4096
	first := o.Frame
	if o.Kind == "mapregion" {
		first = uint64(earlyReserveLastUsed >> 12)
	}
	for i := uint64(0); i < n; i++ {
		va := vfCanon(uintptr(first+i) << 12)
		if e, ok := post[va]; ok && e == (uintptr(o.Frame+i)<<12)|uintptr(o.Flags) {
			w.ref[act][first+i] = vf04Mapping{o.Frame + i, o.Flags}
		} else {
			break
		}
	}
}

func vfChanged(a, b map[uintptr]uintptr) map[uintptr]bool {
	out := map[uintptr]bool{}
	for k, v := range a {
		if b[k] != v {
			out[k] = true
		}
	}
	for k, v := range b {
		if a[k] != v {
			out[k] = true
		}
	}
	return out
}

func vfDiffLeaves(a, b map[uintptr]uintptr) string {
	for k := range vfChanged(a, b) {
		return fmt.Sprintf("page %#x: entry %#x -> %#x", k, a[k], b[k])
	}
	return ""
}

func vfErrStr(e *kernel.Error) string {
	if e == nil {
		return "nil"
	}
	return e.Message
}

func vfPanStr(p interface{}) string {
	if f, ok := p.(*vfMMUFault); ok {
		return "the kernel would page-fault: " + f.msg
	}
	return fmt.Sprint(p)
}

// vf04Key is the dedup key: RAM content in use + CR3 + cursors + reference.
func (w *vf04World) key() string {
	h := sha1.New()
	h.Write(w.m.arena[:w.m.next*4096])
	fmt.Fprintf(h, "|%x|%d|%x|", w.m.cr3-w.m.base, w.m.next, earlyReserveLastUsed)
	for s := 0; s < 2; s++ {
		keys := make([]uint64, 0, len(w.ref[s]))
		for p := range w.ref[s] {
			keys = append(keys, p)
		}
		sort.Slice(keys, func(i, j int) bool { return keys[i] < keys[j] })
		for _, p := range keys {
			fmt.Fprintf(h, "%x:%x:%x,", p, w.ref[s][p].frame, w.ref[s][p].flags)
		}
		h.Write([]byte("/"))
	}
	return string(h.Sum(nil))
}

func vf04Alphabet(full bool) []vf04Op {
	var ops []vf04Op
	pages := vf04Pages
	frames := vf04Frames
	flags := vf04Flags
	maxFail := 3
	if !full {
		pages = []uint64{0, 1, 512, 512 * 512, uint64(0xffff800000000000 >> 12), 513}
		frames = []uint64{0x1234, 1<<40 - 1}
		flags = []uint64{uint64(FlagPresent | FlagRW), uint64(FlagPresent|FlagUserAccessible) | uint64(FlagCopyOnWrite)}
		maxFail = 1
	}
	for _, p := range pages {
		for _, k := range []string{"map", "bmap", "amap"} {
			for _, f := range frames {
				for _, fl := range flags {
					for fail := 0; fail <= maxFail; fail++ {
						ops = append(ops, vf04Op{Kind: k, Page: p, Frame: f, Flags: fl, Fail: fail})
					}
				}
			}
		}
		for _, k := range []string{"unmap", "bunmap", "aunmap"} {
			ops = append(ops, vf04Op{Kind: k, Page: p})
		}
	}
	ops = append(ops, vf04Op{Kind: "activate"})
	for _, k := range []string{"mapregion", "identity"} {
		for _, sz := range []uint64{0, 1, 4096, 4097} {
			for _, f := range []uint64{0x1234, 0x2000} {
				for fail := 0; fail <= 2; fail++ {
					if !full && fail > 0 {
						continue
					}
					ops = append(ops, vf04Op{Kind: k, Frame: f, Size: sz, Flags: uint64(FlagPresent | FlagRW), Fail: fail})
				}
			}
		}
	}
	return ops
}

type vf04Node struct{ hist []vf04Op }

func vf04Search(run *verifrt.Run, m *vfMMU, start string, ops []vf04Op, depth int, shardTop bool) bool {
	gr := &verifrt.Graph{MaxDepth: depth, Stop: run.OutOfBudget}
	keys := map[*vf04Node]string{}
	gr.Key = func(s interface{}) string { return keys[s.(*vf04Node)] }
	gr.Succ = func(g *verifrt.Graph, id int, s interface{}, emit func(string, interface{})) {
		node := s.(*vf04Node)
		for oi, o := range ops {
			if shardTop && len(node.hist) == 0 && !run.Mine(oi) {
				continue
			}
			if o.Fail != 0 && len(node.hist) > 0 && node.hist[len(node.hist)-1].Fail != 0 {
				continue // at most one injected failure in a row
			}
			w, bad := vf04NewWorld(m, start)
			if bad != "" {
				panic("verif: C04 start state that was built before now fails (nondeterminism): " + bad)
			}
			for _, x := range node.hist {
				if bad = w.apply(x); bad != "" {
					break
				}
			}
			if bad != "" {
				panic("verif: C04 history that passed before now fails (nondeterminism): " + bad)
			}
			msg := w.apply(o)
			run.Case()
			h := append(append([]vf04Op{}, node.hist...), o)
			if msg != "" {
				var names []string
				for _, x := range h {
					names = append(names, x.String())
				}
				run.Violate(vf04Class(msg), start+" "+strings.Join(names, " "), fmt.Sprintf("start=%s after [%s]: %s", start, strings.Join(names, " "), msg), vf04Replay{start, h})
				continue
			}
			n := &vf04Node{hist: h}
			keys[n] = w.key()
			run.Sample(vf04Replay{start, h})
			emit(o.Kind, n)
			delete(keys, n) // the graph has copied the key
		}
	}
	init := &vf04Node{}
	w, bad := vf04NewWorld(m, start)
	run.Case()
	if bad != "" {
		run.Violate(vf04Class(bad), "setup "+start, fmt.Sprintf("start=%s: %s", start, bad), vf04Replay{start, nil})
		return true
	}
	keys[init] = w.key()
	gr.Run([]interface{}{init})
	run.States += gr.States
	run.Transitions += gr.Transitions
	run.Traces += gr.Transitions
	return gr.Complete || gr.DepthCapped
}

func vf04Class(msg string) string {
	switch {
	case strings.Contains(msg, "page-fault"):
		return "kernel-page-fault"
	case strings.Contains(msg, "stray mapping"):
		return "stray-mapping"
	case strings.Contains(msg, "TLB"):
		return "missing-tlb-invalidation"
	case strings.Contains(msg, "inactive address space"):
		return "active-space-modified"
	case strings.Contains(msg, "allocation"):
		return "allocation-failure-handling"
	case strings.Contains(msg, "Translate"):
		return "translate"
	case strings.Contains(msg, "expected entry"), strings.Contains(msg, "has entry"):
		return "wrong-entry"
	case strings.Contains(msg, "panic"):
		return "panic"
	}
	return "other"
}

func TestVerifC04(t *testing.T) {
	run := verifrt.Start("C04")
	m := vfNewMMU(96, false)
	restore := m.install()
	defer restore()
	savedCursor := earlyReserveLastUsed
	defer func() { earlyReserveLastUsed = savedCursor }()

	var rp vf04Replay
	if run.Replaying(&rp) {
		w, bad := vf04NewWorld(m, rp.Start)
		run.Case()
		if bad != "" {
			run.Violate(vf04Class(bad), "setup "+rp.Start, fmt.Sprintf("start=%s: %s", rp.Start, bad), vf04Replay{rp.Start, nil})
			run.Finish(true, "replay", "replay")
			return
		}
		for i, o := range rp.Ops {
			msg := w.apply(o)
			run.Case()
			if msg != "" {
				var names []string
				for _, x := range rp.Ops[:i+1] {
					names = append(names, x.String())
				}
				run.Violate(vf04Class(msg), rp.Start+" "+strings.Join(names, " "), msg, vf04Replay{rp.Start, rp.Ops[:i+1]})
				break
			}
		}
		run.Finish(true, "replay", "replay")
		return
	}

	complete := true
	full := vf04Alphabet(true)
	reduced := vf04Alphabet(false)
	starts := []string{"empty", "all-mapped", "deepest", "b-built", "b-active", "huge", "empty+hw", "b-built+attr", "b-active+hw"}
	if run.Thorough() {
		// depth 2 over the full alphabet from every start state, depth 3 over the reduced alphabet
		for _, st := range starts {
			if !vf04Search(run, m, st, full, 2, true) {
				complete = false
			}
		}
		for _, st := range []string{"empty", "b-active", "b-built"} {
			if !vf04Search(run, m, st, reduced, 3, true) {
				complete = false
			}
		}
	} else {
		if !vf04Search(run, m, "empty", full, 2, true) {
			complete = false
		}
		for _, st := range starts[1:] {
			if !vf04Search(run, m, st, reduced, 2, true) {
				complete = false
			}
		}
	}
	bound := fmt.Sprintf("quick: all histories of length <=2 over the full alphabet (%d operations: 7 pages x {Map, A.Map, B.Map} x 3 frames x 5 flag sets x allocation failure at call 0..3, unmaps, Activate, MapRegion/IdentityMapRegion x 4 sizes) from the empty state and over the reduced alphabet (%d operations) from 8 non-initial start states (three of them with Accessed/Dirty resp. NX/Global bits in both roots' recursive slots)", len(full), len(reduced))
	if run.Thorough() {
		bound = fmt.Sprintf("thorough: length <=2 over the full alphabet (%d operations) from all 9 start states; length <=3 over the reduced alphabet (%d operations) from 3 start states", len(full), len(reduced))
	}
	run.Finish(complete, bound, "BFS with deduplication on the raw content of simulated RAM; successors by replay of the shortest history on a fresh arena; each shard owns the subtrees below a subset of the first operations")
}
