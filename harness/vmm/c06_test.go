//go:build verif
// +build verif

package vmm

// C06 — copy-on-write faults get a private copy; the shared zero frame is
// never writable. The real reserveZeroedFrame / pageFaultHandler / Map family
// run on the software MMU over memfd-backed RAM; the few virtual data pages
// are MAP_SHARED|MAP_FIXED aliases of the frame the page tables map them to
// (the handler copies *from the faulting virtual address*), re-synchronised
// after every operation.
//
//  Part 1 (guard): every mapping entry point x every flag subset x {zero
//          frame, another frame}: no present RW leaf to the zero frame, ever.
//  Part 2 (faults): single faults over the full leaf-flag product x upper-level
//          presence x environment failures; BFS over fault sequences on pages
//          sharing the zero frame / a data frame.

import (
	"fmt"
	"runtime/debug"
	"syscall"
	"testing"
	"unsafe"

	"github.com/ProjectSerenity/firefly/kernel"
	"github.com/ProjectSerenity/firefly/kernel/gate"
	"github.com/ProjectSerenity/firefly/kernel/internal/verifrt"
	"github.com/ProjectSerenity/firefly/kernel/mm"
)

var vf06DataPages = []uintptr{0x10000001000, 0x10000002000, 0x10040001000}

type vf06Env struct {
	m           *vfMMU
	failMapTemp bool
	failUnmap   bool
	cr2         uintptr
	windowsOK   bool
}

func vf06Setup() *vf06Env {
	e := &vf06Env{m: vfNewMMU(64, true)}
	for _, w := range []uintptr{0x10000000000, 0x10040000000} {
		if _, err := vfSysMmap(w, 4*4096, syscall.PROT_NONE, syscall.MAP_PRIVATE|syscall.MAP_ANON|0x100000 /* MAP_FIXED_NOREPLACE */, -1, 0); err != nil {
			panic("verif: cannot reserve the data-page window: " + err.Error())
		}
	}
	return e
}

func (e *vf06Env) install() func() {
	restore := e.m.install()
	realMapTemp, realUnmap := mapTemporaryFn, unmapFn
	mapTemporaryFn = func(f mm.Frame) (mm.Page, *kernel.Error) {
		if e.failMapTemp {
			return 0, vfErrInjected
		}
		return realMapTemp(f)
	}
	unmapFn = func(p mm.Page) *kernel.Error {
		err := realUnmap(p)
		if e.failUnmap {
			return vfErrInjected
		}
		return err
	}
	sHandle, sCR2 := handleInterruptFn, readCR2Fn
	handleInterruptFn = func(gate.InterruptNumber, uint8, func(*gate.Registers)) {}
	readCR2Fn = func() uint64 { return uint64(e.cr2) }
	return func() {
		restore()
		handleInterruptFn, readCR2Fn = sHandle, sCR2
	}
}

// syncAliases makes the host MMU mirror the software MMU for the data pages.
func (e *vf06Env) syncAliases() {
	m := e.m
	for _, v := range vf06DataPages {
		_, leaf, ok := m.walkFrom(m.cr3, v)
		if ok {
			f := leaf & vfFrameMask
			if f < m.base || f >= m.base+uintptr(m.pages*4096) {
				panic("verif: data page maps outside RAM")
			}
			if _, err := vfSysMmap(v, 4096, syscall.PROT_READ, syscall.MAP_SHARED|syscall.MAP_FIXED, m.fd, int64(f-m.base)); err != nil {
				panic(err)
			}
		} else {
			if _, err := vfSysMmap(v, 4096, syscall.PROT_NONE, syscall.MAP_PRIVATE|syscall.MAP_ANON|syscall.MAP_FIXED, -1, 0); err != nil {
				panic(err)
			}
		}
	}
}

func vf06LevelPtr(root, va uintptr, level int) *uintptr {
	table := root
	for lvl := 0; lvl < 4; lvl++ {
		idx := (va >> (39 - 9*uint(lvl))) & 511
		ea := table + idx*8
		if lvl == level {
			return (*uintptr)(unsafe.Pointer(ea))
		}
		e := *(*uintptr)(unsafe.Pointer(ea))
		table = e & vfFrameMask
	}
	return nil
}

type vf06World struct {
	root      mm.Frame
	dataFrame mm.Frame
	useData   bool
}

// build creates an address space with nShared data pages CoW-mapped to the zero
// frame (or to one data frame with a byte pattern), using the real code.
func (e *vf06Env) build(nShared int, useData bool) (vf06World, string) {
	m := e.m
	m.reset()
	protectReservedZeroedPage = false
	earlyReserveLastUsed = tempMappingAddr
	w := vf06World{useData: useData}
	w.root = m.newRoot()
	m.cr3 = w.root.Address()
	var pan interface{}
	var err *kernel.Error
	func() {
		defer func() { pan = recover() }()
		err = reserveZeroedFrame()
	}()
	if pan != nil {
		return w, "reserveZeroedFrame: " + vfPanStr(pan)
	}
	if err != nil {
		return w, "reserveZeroedFrame failed: " + err.Message
	}
	z := (*[4096]byte)(unsafe.Pointer(ReservedZeroedFrame.Address()))
	for i, b := range z {
		if b != 0 {
			return w, fmt.Sprintf("the reserved zero frame is not zero-filled after initialisation (byte %d = %#x)", i, b)
		}
	}
	if useData {
		w.dataFrame, _ = m.alloc()
		for i := uintptr(0); i < 4096; i++ {
			*(*byte)(unsafe.Pointer(w.dataFrame.Address() + i)) = byte(i*13 + 5)
		}
	}
	for i := 0; i < nShared; i++ {
		f := ReservedZeroedFrame
		if useData {
			f = w.dataFrame
		}
		if err := Map(mm.PageFromAddress(vf06DataPages[i]), f, FlagPresent|FlagNoExecute|FlagCopyOnWrite); err != nil {
			return w, "mapping a copy-on-write page failed: " + err.Message
		}
	}
	m.allocs, m.failAt, m.flushed = 0, 0, nil
	return w, ""
}

func (e *vf06Env) leaves() [3]uintptr {
	var s [3]uintptr
	for i, v := range vf06DataPages {
		ok := true
		for lvl := 0; lvl < 3 && ok; lvl++ {
			if p := vf06LevelPtr(e.m.cr3, v, lvl); *p&1 == 0 {
				ok = false
			}
		}
		if ok {
			s[i] = *vf06LevelPtr(e.m.cr3, v, 3)
		}
	}
	return s
}

func (e *vf06Env) fault(page int, off uintptr, info uint64) (recovered bool, pan interface{}) {
	e.cr2 = vf06DataPages[page] + off
	regs := gate.Registers{Info: info}
	func() {
		defer func() { pan = recover() }()
		pageFaultHandler(&regs)
		recovered = true
	}()
	return
}

func (e *vf06Env) zeroFrameProblem(w vf06World) string {
	z := (*[4096]byte)(unsafe.Pointer(ReservedZeroedFrame.Address()))
	for i, b := range z {
		if b != 0 {
			return fmt.Sprintf("the shared zero frame was modified (byte %d = %#x)", i, b)
		}
	}
	if w.useData {
		d := (*[4096]byte)(unsafe.Pointer(w.dataFrame.Address()))
		for i, b := range d {
			if b != byte(uintptr(i)*13+5) {
				return fmt.Sprintf("the shared data frame was modified (byte %d)", i)
			}
		}
	}
	return ""
}

// ---- Part 2a: single faults

type vf06Single struct {
	UseData bool   `json:"use_data"`
	Flags   uint64 `json:"leaf_flags"`
	Upper   int    `json:"upper_level_cleared"` // -1 none
	Env     string `json:"env"`
	Off     uint64 `json:"offset"`
	Info    uint64 `json:"error_code"`
}

var vf06FlagBits = []PageTableEntryFlag{FlagPresent, FlagRW, FlagUserAccessible, FlagCopyOnWrite, FlagNoExecute, FlagAccessed, FlagDirty}

// the remaining architectural bits of a 4 KiB leaf entry: write-through, cache-disable, bit 7 (PAT on a leaf -
// the same bit is "huge page" on the upper levels only) and global
var vf06AttrBits = []PageTableEntryFlag{FlagWriteThroughCaching, FlagDoNotCache, FlagHugePage, FlagGlobal}

func (e *vf06Env) single(run *verifrt.Run, c vf06Single) {
	run.Case()
	verifrt.JournalJSON(map[string]interface{}{"single": c})
	report := func(class, msg string) {
		run.Violate(class, class+" "+verifrt.JSONKey(c), fmt.Sprintf("%s: %s", verifrt.JSONKey(c), msg), map[string]interface{}{"single": c})
	}
	m := e.m
	w, bad := e.build(2, c.UseData)
	if bad != "" {
		report("setup", bad)
		return
	}
	fl := PageTableEntryFlag(c.Flags)
	lp := vf06LevelPtr(m.cr3, vf06DataPages[0], 3)
	oldFrame := *lp & vfFrameMask
	*lp = oldFrame | uintptr(fl)
	if c.Upper >= 0 {
		up := vf06LevelPtr(m.cr3, vf06DataPages[0], c.Upper)
		*up &^= 1
	}
	e.syncAliases()
	e.failMapTemp = c.Env == "maptempfail"
	e.failUnmap = c.Env == "unmapfail"
	m.allocs, m.failAt = 0, 0
	if c.Env == "allocfail" {
		m.failAt = 1
	}
	if c.Env == "allocfail2" {
		m.failAt = 2 // fails inside MapTemporary's own table allocation, if it needs one
	}
	before := e.leaves()
	var pre [4096]byte
	readable := c.Upper < 0 && fl&FlagPresent != 0
	if readable {
		copy(pre[:], (*[4096]byte)(unsafe.Pointer(vf06DataPages[0]))[:])
	}
	nextBefore := m.next
	m.flushed = nil
	rec, pan := e.fault(0, uintptr(c.Off), c.Info)
	failedEnv := c.Env == "maptempfail" || (m.failAt != 0 && m.allocs >= m.failAt)
	m.failAt, e.failMapTemp, e.failUnmap = 0, false, false
	expectRec := fl&FlagPresent != 0 && fl&FlagRW == 0 && fl&FlagCopyOnWrite != 0 && c.Upper < 0 && !failedEnv
	after := e.leaves()
	if rec != expectRec {
		if rec {
			report("resumed-unrecoverable-fault", fmt.Sprintf("the handler returned (faulting code resumes) although the fault is not a resolvable copy-on-write fault (panic=%v)", pan))
		} else {
			report("cow-fault-not-resolved", fmt.Sprintf("a copy-on-write fault on a present read-only page ended in %v", vfPanStr(pan)))
		}
		return
	}
	if !rec {
		if _, ok := pan.(*kernel.Error); !ok {
			report("panic-value", fmt.Sprintf("unrecoverable fault ended with %v instead of a kernel panic value", vfPanStr(pan)))
		}
		if c.Upper < 0 && after != before {
			report("entries-changed-on-panic", fmt.Sprintf("leaf entries changed although the fault was not resolved: %#x -> %#x", before, after))
		}
		if msg := e.zeroFrameProblem(w); msg != "" {
			report("shared-frame-modified", msg)
		}
		run.Distinct(fmt.Sprintf("panic fl=%#x up=%d env=%s", c.Flags, c.Upper, c.Env))
		return
	}
	newLeaf := after[0]
	newFrame := newLeaf & vfFrameMask
	// what the property fixes: the page is present and writable afterwards, and who may access it / whether it may be
	// executed does not change; accessed/dirty/global/caching and the software bits are the implementation's business
	rel := uintptr(FlagPresent) | uintptr(FlagRW) | uintptr(FlagUserAccessible) | uintptr(FlagNoExecute)
	wantFlags := (uintptr(fl) | uintptr(FlagRW) | uintptr(FlagPresent)) & rel
	if newLeaf&^vfFrameMask&rel != wantFlags {
		report("flags-after-copy", fmt.Sprintf("entry flags after the copy are %#x, expected present+writable with the old user/no-execute bits (%#x)", newLeaf&^vfFrameMask, wantFlags))
	}
	if newFrame == oldFrame {
		report("frame-not-replaced", "the page still maps the shared frame")
		return
	}
	idx := int((newFrame - m.base) >> 12)
	if newFrame < m.base || idx < nextBefore || idx >= m.next {
		report("frame-not-fresh", fmt.Sprintf("the page now maps frame %#x which was not allocated for this fault", newFrame))
		return
	}
	got := (*[4096]byte)(unsafe.Pointer(newFrame))
	if *got != pre {
		report("copy-differs", "the private frame's contents differ from what the page showed before the fault")
	}
	if after[1] != before[1] {
		report("other-page-changed", "another page sharing the frame had its mapping changed")
	}
	if msg := e.zeroFrameProblem(w); msg != "" {
		report("shared-frame-modified", msg)
	}
	flushed := false
	for _, f := range m.flushed {
		if f == vf06DataPages[0] {
			flushed = true
		}
	}
	if !flushed {
		report("not-invalidated", fmt.Sprintf("the faulting page's TLB entry was not invalidated (invalidated: %#x)", m.flushed))
	}
	// the temporary mapping must be gone again
	if _, _, ok := m.walkFrom(m.cr3, tempMappingAddr); ok && c.Env != "unmapfail" {
		report("temp-mapping-left", "the temporary mapping is still present after the fault was resolved")
	}
	run.Distinct(fmt.Sprintf("recovered fl=%#x data=%v", c.Flags, c.UseData))
}

// ---- Part 2b: fault sequences (BFS over per-page status)

type vf06Seq struct {
	UseData bool  `json:"use_data"`
	Pages   []int `json:"faults"` // faulting page index per step; +10: read-type fault code; +20: map another CoW page first
}

func (e *vf06Env) sequence(run *verifrt.Run, c vf06Seq) string {
	verifrt.JournalJSON(map[string]interface{}{"seq": c})
	w, bad := e.build(3, c.UseData)
	if bad != "" {
		return "setup: " + bad
	}
	e.syncAliases()
	copied := map[int]bool{}
	for step, p := range c.Pages {
		info := uint64(3)
		if p >= 10 {
			info = 1
			p -= 10
		}
		before := e.leaves()
		recd, pan := e.fault(p, 8, info)
		after := e.leaves()
		run.Transitions++
		if copied[p] {
			if recd {
				return fmt.Sprintf("step %d: a fault on an already private writable page was treated as resolved (handler returned)", step)
			}
			if before != after {
				return fmt.Sprintf("step %d: entries changed on an unrecoverable fault", step)
			}
		} else {
			if !recd {
				return fmt.Sprintf("step %d: copy-on-write fault on page %d not resolved: %v", step, p, vfPanStr(pan))
			}
			for q := 0; q < 3; q++ {
				if q != p && before[q] != after[q] {
					return fmt.Sprintf("step %d: the mapping of page %d changed while resolving a fault on page %d", step, q, p)
				}
			}
			copied[p] = true
			frames := map[uintptr]bool{}
			for q := 0; q < 3; q++ {
				if copied[q] {
					f := after[q] & vfFrameMask
					if frames[f] || f == ReservedZeroedFrame.Address() || (c.UseData && f == w.dataFrame.Address()) {
						return fmt.Sprintf("step %d: private frames are not distinct from each other and from the shared frame", step)
					}
					frames[f] = true
				}
			}
			// contents: private copy equals the shared content
			nf := (*[4096]byte)(unsafe.Pointer(after[p] & vfFrameMask))
			for i, b := range nf {
				want := byte(0)
				if c.UseData {
					want = byte(uintptr(i)*13 + 5)
				}
				if b != want {
					return fmt.Sprintf("step %d: private copy differs from the shared content at byte %d", step, i)
				}
			}
			// the owner writes into its private page: the shared frame and the other copies must not see it
			*(*byte)(unsafe.Pointer((after[p] & vfFrameMask) + 4000)) = 0xEE
		}
		if msg := e.zeroFrameProblem(w); msg != "" {
			return fmt.Sprintf("step %d: %s", step, msg)
		}
		e.syncAliases()
	}
	return ""
}

// ---- Part 1: the zero-frame guard

type vf06Guard struct {
	Entry  int    `json:"entry_point"` // 0 Map 1 MapTemporary 2 pdt.Map(active) 3 MapRegion 4 IdentityMapRegion 5 pdt.Map(inactive)
	Flags  uint64 `json:"flags"`
	Zero   bool   `json:"zero_frame"`
	PageIx int    `json:"page"`
}

var vf06EntryNames = []string{"Map", "MapTemporary", "PageDirectoryTable.Map(active)", "MapRegion", "IdentityMapRegion", "PageDirectoryTable.Map(inactive)"}

func (e *vf06Env) guard(run *verifrt.Run, c vf06Guard) {
	run.Case()
	verifrt.JournalJSON(map[string]interface{}{"guard": c})
	report := func(class, msg string) {
		run.Violate(class, class+" "+verifrt.JSONKey(c), fmt.Sprintf("%s flags=%#x zero=%v: %s", vf06EntryNames[c.Entry], c.Flags, c.Zero, msg), map[string]interface{}{"guard": c})
	}
	m := e.m
	_, bad := e.build(0, false)
	if bad != "" {
		report("setup", bad)
		return
	}
	frame := ReservedZeroedFrame
	if !c.Zero {
		frame, _ = m.alloc()
	}
	fl := PageTableEntryFlag(c.Flags)
	pages := []mm.Page{mm.PageFromAddress(vf06DataPages[0]), 0, mm.PageFromAddress(tempMappingAddr), mm.PageFromAddress(0xffff800000000000)}
	page := pages[c.PageIx]
	var err *kernel.Error
	var pan interface{}
	pdtA := PageDirectoryTable{pdtFrame: mm.Frame(m.cr3 >> 12)}
	var pdtB PageDirectoryTable
	roots := []uintptr{m.cr3}
	func() {
		defer func() { pan = recover() }()
		switch c.Entry {
		case 0:
			err = Map(page, frame, fl)
		case 1:
			_, err = MapTemporary(frame)
		case 2:
			err = pdtA.Map(page, frame, fl)
		case 3:
			_, err = MapRegion(frame, 4096, fl)
		case 4:
			_, err = IdentityMapRegion(frame, 4096, fl)
		case 5:
			fb, _ := m.alloc()
			if ierr := pdtB.Init(fb); ierr != nil {
				panic("init of second space: " + ierr.Message)
			}
			roots = append(roots, fb.Address())
			err = pdtB.Map(page, frame, fl)
		}
	}()
	if pan != nil {
		report("panic", vfPanStr(pan))
		return
	}
	found := ""
	for _, r := range roots {
		leaves, _, _ := m.scanLeaves(r)
		for va, en := range leaves {
			if en&vfFrameMask == ReservedZeroedFrame.Address() && en&uintptr(FlagRW) != 0 {
				found = fmt.Sprintf("page %#x maps the shared zero frame writable (entry %#x), call returned %v", va, en, vfErrStr(err))
			}
		}
	}
	if found != "" {
		report("zero-frame-writable", found)
	}
	mustRefuse := c.Zero && (c.Entry == 1 || (fl&FlagRW != 0 && fl&FlagPresent != 0))
	mayRefuse := c.Zero && (c.Entry == 1 || fl&FlagRW != 0)
	if mustRefuse && err == nil {
		report("guard-no-error", "a request to map the shared zero frame writable did not return an error")
	}
	if !mayRefuse && err != nil {
		report("guard-spurious-error", fmt.Sprintf("a harmless mapping request was refused: %s", err.Message))
	}
	run.Distinct(fmt.Sprintf("guard e=%d refused=%v", c.Entry, err != nil))
}

func TestVerifC06(t *testing.T) {
	run := verifrt.Start("C06")
	debug.SetPanicOnFault(true) // a write through a read-only alias / a touch of an unmapped data page becomes a recoverable panic
	e := vf06Setup()
	restore := e.install()
	defer restore()
	savedCursor, savedProtect, savedZero := earlyReserveLastUsed, protectReservedZeroedPage, ReservedZeroedFrame
	defer func() { earlyReserveLastUsed, protectReservedZeroedPage, ReservedZeroedFrame = savedCursor, savedProtect, savedZero }()

	var rp struct {
		Single *vf06Single `json:"single"`
		Seq    *vf06Seq    `json:"seq"`
		Guard  *vf06Guard  `json:"guard"`
	}
	if run.Replaying(&rp) {
		switch {
		case rp.Single != nil:
			e.single(run, *rp.Single)
		case rp.Guard != nil:
			e.guard(run, *rp.Guard)
		case rp.Seq != nil:
			run.Case()
			if msg := e.sequence(run, *rp.Seq); msg != "" {
				run.Violate("fault-sequence", verifrt.JSONKey(rp.Seq), msg, map[string]interface{}{"seq": rp.Seq})
			}
		}
		run.Finish(true, "replay", "replay")
		return
	}
	idx := 0
	mine := func() bool { idx++; return run.Mine(idx) }

	// Part 1: guard
	for entry := 0; entry < 6; entry++ {
		for mask := 0; mask < 32; mask++ {
			var fl PageTableEntryFlag
			for i, b := range []PageTableEntryFlag{FlagPresent, FlagRW, FlagUserAccessible, FlagCopyOnWrite, FlagNoExecute} {
				if mask&(1<<uint(i)) != 0 {
					fl |= b
				}
			}
			for _, zero := range []bool{true, false} {
				for pg := 0; pg < 4; pg++ {
					if (entry == 1 || entry == 3 || entry == 4) && pg != 0 {
						continue
					}
					if mine() {
						e.guard(run, vf06Guard{entry, uint64(fl), zero, pg})
					}
				}
			}
		}
	}
	// Part 2a: single faults
	envs := []string{"none", "allocfail", "maptempfail", "allocfail2", "unmapfail"}
	infos := []uint64{0, 3}
	if run.Thorough() {
		infos = []uint64{0, 1, 2, 3, 4, 5, 8, 16}
	}
	for _, useData := range []bool{false, true} {
		for mask := 0; mask < 1<<uint(len(vf06FlagBits)); mask++ {
			var fl PageTableEntryFlag
			for i, b := range vf06FlagBits {
				if mask&(1<<uint(i)) != 0 {
					fl |= b
				}
			}
			for upper := -1; upper < 3; upper++ {
				for _, env := range envs {
					for _, off := range []uint64{0, 0xfff} {
						for _, info := range infos {
							if !mine() {
								continue
							}
							c := vf06Single{useData, uint64(fl), upper, env, off, info}
							run.Sample(map[string]interface{}{"single": c})
							e.single(run, c)
						}
					}
				}
			}
		}
	}
	// Part 2a': the full 11-bit product of leaf flags (memory-type, PAT and global bits included): without an
	// environment failure in quick, with every environment in thorough. The 7-bit product above already has attr=0.
	attrEnvs := []string{"none"}
	if run.Thorough() {
		attrEnvs = envs
	}
	for _, useData := range []bool{false, true} {
		for mask := 0; mask < 1<<uint(len(vf06FlagBits)); mask++ {
			for amask := 1; amask < 1<<uint(len(vf06AttrBits)); amask++ {
				var fl PageTableEntryFlag
				for i, b := range vf06FlagBits {
					if mask&(1<<uint(i)) != 0 {
						fl |= b
					}
				}
				for i, b := range vf06AttrBits {
					if amask&(1<<uint(i)) != 0 {
						fl |= b
					}
				}
				for _, env := range attrEnvs {
					for _, info := range []uint64{0, 3} {
						if !mine() {
							continue
						}
						c := vf06Single{useData, uint64(fl), -1, env, 0x10, info}
						run.Sample(map[string]interface{}{"single": c})
						e.single(run, c)
					}
				}
			}
		}
	}
	// Part 2b: sequences of faults over three pages sharing one frame, BFS over the per-page (shared/private) status
	maxLen := 4
	if run.Thorough() {
		maxLen = 6
	}
	abstract := map[string]bool{}
	if run.Shard == 0 {
		for _, useData := range []bool{false, true} {
			var rec func(hist []int, status [3]bool)
			rec = func(hist []int, status [3]bool) {
				abstract[fmt.Sprint(useData, status, len(hist))] = true
				if len(hist) == maxLen {
					return
				}
				for _, p := range []int{0, 1, 2, 10, 11, 12} {
					h := append(append([]int{}, hist...), p)
					c := vf06Seq{useData, h}
					run.Case()
					run.Sample(map[string]interface{}{"seq": c})
					if msg := e.sequence(run, c); msg != "" {
						run.Violate("fault-sequence", verifrt.JSONKey(c), fmt.Sprintf("%s: %s", verifrt.JSONKey(c), msg), map[string]interface{}{"seq": c})
						continue
					}
					st := status
					st[p%10] = true
					rec(h, st)
				}
			}
			rec(nil, [3]bool{})
		}
	}
	run.States += int64(len(abstract))
	run.Traces = run.Evaluations
	if run.Transitions == 0 {
		run.Transitions = 1
	}
	if run.States == 0 {
		run.States = 1
	}
	run.Finish(true, fmt.Sprintf("guard: 6 entry points x 32 flag subsets x {zero, other frame} x pages; single faults: 128 leaf flag sets x {no, each upper level non-present} x 5 environments (allocation / temporary-mapping / unmap failures) x 2 offsets x %d error codes x {zero frame, data frame}; all 2048 leaf flag sets (write-through, cache-disable, PAT/bit 7 and global added) x 2 error codes x {zero frame, data frame} (thorough: x 5 environments); fault sequences of length <=%d over three pages sharing a frame (both fault kinds)", len(infos), maxLen),
		"each case runs the real handler on memfd-backed RAM with host aliases; distinct by outcome class (recovered/panic x flags x environment)")
}
