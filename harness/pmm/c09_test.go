//go:build verif
// +build verif

package pmm

// C09 — concurrent frame allocation and freeing never duplicates or loses a
// frame. The real BitmapAllocator.AllocFrame/FreeFrame (with access hooks
// inserted by tools/instr-access) run over the instrumented spinlock of C08
// (real Go methods + interpreted real assembly) on pools built by the real
// pmm.Init from a tiny memory map, under the controlled scheduler.

import (
	"fmt"
	"strings"
	"testing"

	"github.com/ProjectSerenity/firefly/kernel"
	"github.com/ProjectSerenity/firefly/kernel/internal/verifrt"
	vs "github.com/ProjectSerenity/firefly/kernel/internal/verifsched"
	"github.com/ProjectSerenity/firefly/kernel/mm"
	ksync "github.com/ProjectSerenity/firefly/kernel/sync"
)

type vf09Config struct {
	Name    string     `json:"name"`
	Regions []vfRegion `json:"regions"`
	PreHeld int        `json:"pre_held"` // frames allocated sequentially before the threads start
	Progs   []string   `json:"progs"`    // a alloc, f free own newest, d free the shared pre-held frame, u free an unmanaged frame, s free own oldest
	Yield   bool       `json:"yield"`
}

type vf09Call struct {
	tid      int
	op       byte
	frame    mm.Frame
	err      *kernel.Error
	inv, ret int
}

type vf09World struct {
	cfg      vf09Config
	snap     vfSnap
	usable   map[uint64]bool
	total    int
	owner    map[mm.Frame]int
	calls    []vf09Call
	clock    int
	dup      string
	shared   mm.Frame // the pre-held frame several threads try to free
	freeInit int
	resvInit uint32
}

func (w *vf09World) reset() {
	alloc := &bitmapAllocator
	vfRestore(alloc, w.snap)
	alloc.mutex = ksync.Spinlock{}
	w.owner = map[mm.Frame]int{}
	w.calls = w.calls[:0]
	w.clock = 0
	w.dup = ""
}

func vf09Boot(cfg vf09Config) (*vf09World, string) {
	w := &vf09World{cfg: cfg}
	_, all := vfAvail(cfg.Regions)
	bc := vfConfig{Regions: cfg.Regions, KStart: 0x7000000, KEnd: 0x7001000} // kernel outside every region
	br := vfBoot(bc)
	if br.Panic != nil || br.Err != nil {
		return nil, fmt.Sprintf("pmm.Init failed for the C09 configuration: panic=%v err=%v", br.Panic, br.Err)
	}
	w.usable = map[uint64]bool{}
	for f := range all {
		if !br.Early[f] {
			w.usable[f] = true
		}
	}
	alloc := &bitmapAllocator
	for i := 0; i < cfg.PreHeld; i++ {
		f, err := alloc.AllocFrame()
		if err != nil {
			return nil, "cannot pre-allocate frames: " + err.Message
		}
		w.shared = f
		delete(w.usable, uint64(f)) // held by the environment, except the shared one handled below
	}
	if cfg.PreHeld > 0 {
		w.usable[uint64(w.shared)] = true // managed; currently held by "the environment" until a thread frees it
	}
	w.total = len(w.usable)
	w.resvInit = alloc.reservedPages
	for _, p := range alloc.pools {
		w.freeInit += int(p.freeCount)
	}
	w.snap = vfTake(alloc, 3*4096)
	return w, ""
}

func (w *vf09World) prog(tid int, ops string) func() {
	alloc := &bitmapAllocator
	return func() {
		var mine []mm.Frame
		for i, o := range ops {
			vs.Progress(i + 1)
			c := vf09Call{tid: tid, op: byte(o)}
			switch o {
			case 'a':
				c.inv = w.clock
				w.clock++
				f, err := alloc.AllocFrame()
				c.frame, c.err = f, err
				if err == nil {
					if prev, held := w.owner[f]; held && w.dup == "" {
						w.dup = fmt.Sprintf("frame %d handed to T%d while it is held by T%d", f, tid, prev)
					}
					if f == w.shared && w.cfg.PreHeld > 0 && !w.sharedFreed() && w.dup == "" {
						w.dup = fmt.Sprintf("frame %d handed to T%d while it is still held (never freed)", f, tid)
					}
					w.owner[f] = tid
					mine = append(mine, f)
				}
			case 'f', 's':
				if len(mine) == 0 {
					continue
				}
				var f mm.Frame
				if o == 'f' {
					f = mine[len(mine)-1]
					mine = mine[:len(mine)-1]
				} else {
					f = mine[0]
					mine = mine[1:]
				}
				delete(w.owner, f) // ownership ends when the free is issued
				c.inv = w.clock
				w.clock++
				c.frame = f
				c.err = alloc.FreeFrame(f)
			case 'd':
				c.inv = w.clock
				w.clock++
				c.frame = w.shared
				c.err = alloc.FreeFrame(w.shared)
			case 'u':
				c.inv = w.clock
				w.clock++
				c.frame = mm.Frame(0x9999999)
				c.err = alloc.FreeFrame(c.frame)
			}
			c.ret = w.clock
			w.clock++
			w.calls = append(w.calls, c)
		}
		vs.Progress(99)
	}
}

func (w *vf09World) sharedFreed() bool {
	for _, c := range w.calls {
		if c.op == 'd' && c.err == nil {
			return true
		}
	}
	return false
}

// linearizable: some sequential order of the completed calls, consistent with
// real-time order, is explained by the reference model (a set of free frames).
func (w *vf09World) linearizable() bool {
	n := len(w.calls)
	free := map[mm.Frame]bool{}
	for f := range w.usable {
		free[mm.Frame(f)] = true
	}
	if w.cfg.PreHeld > 0 {
		delete(free, w.shared)
	}
	used := make([]bool, n)
	var rec func(done int) bool
	rec = func(done int) bool {
		if done == n {
			return true
		}
		for i := 0; i < n; i++ {
			if used[i] {
				continue
			}
			// i may go next only if no unused call returned before i was invoked
			ok := true
			for j := 0; j < n; j++ {
				if !used[j] && j != i && w.calls[j].ret < w.calls[i].inv {
					ok = false
					break
				}
			}
			if !ok {
				continue
			}
			c := w.calls[i]
			switch c.op {
			case 'a':
				if c.err != nil {
					if len(free) != 0 || c.err != errBitmapAllocOutOfMemory {
						continue
					}
					used[i] = true
					if rec(done + 1) {
						return true
					}
					used[i] = false
				} else {
					if !free[c.frame] {
						continue
					}
					delete(free, c.frame)
					used[i] = true
					if rec(done + 1) {
						return true
					}
					used[i] = false
					free[c.frame] = true
				}
			default: // frees
				managed := w.usable[uint64(c.frame)]
				switch {
				case !managed:
					if c.err != errBitmapAllocFrameNotManaged {
						continue
					}
					used[i] = true
					if rec(done + 1) {
						return true
					}
					used[i] = false
				case free[c.frame]:
					if c.err != errBitmapAllocDoubleFree {
						continue
					}
					used[i] = true
					if rec(done + 1) {
						return true
					}
					used[i] = false
				default:
					if c.err != nil {
						continue
					}
					free[c.frame] = true
					used[i] = true
					if rec(done + 1) {
						return true
					}
					used[i] = false
					delete(free, c.frame)
				}
			}
		}
		return false
	}
	return rec(0)
}

func (w *vf09World) final() string {
	alloc := &bitmapAllocator
	if w.dup != "" {
		return w.dup
	}
	held := len(w.owner)
	nAlloc, nFree := 0, 0
	for _, c := range w.calls {
		if c.err == nil {
			if c.op == 'a' {
				nAlloc++
			} else {
				nFree++
			}
		}
	}
	wantReserved := int(w.resvInit) + nAlloc - nFree
	wantFree := w.freeInit - nAlloc + nFree
	if int(alloc.reservedPages) != wantReserved {
		return fmt.Sprintf("after all callers stopped reservedPages=%d, expected %d (initial %d, %d successful allocations, %d successful frees; %d frames still held by callers)", alloc.reservedPages, wantReserved, w.resvInit, nAlloc, nFree, held)
	}
	free := 0
	for _, p := range alloc.pools {
		free += int(p.freeCount)
	}
	if free != wantFree {
		return fmt.Sprintf("after all callers stopped the pools report %d free frames, expected %d", free, wantFree)
	}
	if !w.linearizable() {
		var sb strings.Builder
		for _, c := range w.calls {
			fmt.Fprintf(&sb, " T%d:%c(%d)->%s@[%d,%d]", c.tid, c.op, c.frame, vfErrName(c.err), c.inv, c.ret)
		}
		return "the call/return history is not linearizable against the sequential allocator model:" + sb.String()
	}
	// the lock must be free once every caller has returned: the next call would block forever otherwise (and the
	// sequential drain below would never return)
	if probe := alloc.mutex; !probe.TryToAcquire() { // judged by behaviour (a try-acquire on a copy), not by the lock word
		return "the allocator lock is left held after all callers returned: the next call blocks forever"
	}
	// a final sequential drain recovers exactly the un-held frames
	got := map[mm.Frame]bool{}
	for i := 0; i <= w.total+1; i++ {
		f, err := alloc.AllocFrame()
		if err != nil {
			break
		}
		if got[f] {
			return fmt.Sprintf("drain returned frame %d twice", f)
		}
		if _, held := w.owner[f]; held {
			return fmt.Sprintf("drain returned frame %d which is still held by T%d", f, w.owner[f])
		}
		got[f] = true
	}
	if len(got) != wantFree {
		return fmt.Sprintf("a sequential drain after the run recovered %d frames, expected %d (a frame was lost or invented)", len(got), wantFree)
	}
	if w.cfg.PreHeld > 0 && !w.sharedFreed() && got[w.shared] {
		return fmt.Sprintf("drain returned frame %d which is still held", w.shared)
	}
	if probe := alloc.mutex; !probe.TryToAcquire() {
		return "the allocator lock is left held"
	}
	return ""
}

func vfErrName(e *kernel.Error) string {
	if e == nil {
		return "ok"
	}
	return strings.Replace(e.Message, " ", "-", -1)
}

type vf09Replay struct {
	Cfg      vf09Config `json:"cfg"`
	Bound    int        `json:"bound"`
	Schedule []int      `json:"schedule"`
}

func vf09Sched(w *vf09World) (func() []func(), *vs.Sched) {
	if w.cfg.Yield {
		ksync.VerifSetYield(func() { vs.Step(0x8000) })
	} else {
		ksync.VerifSetYield(nil)
	}
	alloc := &bitmapAllocator
	mk := func() []func() {
		w.reset()
		var bs []func()
		for i, p := range w.cfg.Progs {
			bs = append(bs, w.prog(i, p))
		}
		return bs
	}
	s := &vs.Sched{}
	s.StateFn = func() string {
		var sb strings.Builder
		sb.WriteString(vfBitmapKey(alloc))
		fmt.Fprintf(&sb, "|%v|", alloc.mutex)
		for _, c := range w.calls {
			fmt.Fprintf(&sb, "%d%c%d%s,", c.tid, c.op, c.frame, vfErrName(c.err))
		}
		return sb.String()
	}
	s.Monitor = func() string { return w.dup }
	s.MaxSteps = 50000
	return mk, s
}

func vf09Class(msg string) string {
	switch {
	case strings.Contains(msg, "handed to"), strings.Contains(msg, "twice"), strings.Contains(msg, "still held"):
		return "duplicate-frame"
	case strings.Contains(msg, "data race"):
		return "data-race"
	case strings.Contains(msg, "deadlock"), strings.Contains(msg, "horizon"), strings.Contains(msg, "lock is left held"):
		return "blocks-forever"
	case strings.Contains(msg, "linearizable"):
		return "not-linearizable"
	case strings.Contains(msg, "reservedPages"), strings.Contains(msg, "pools report"):
		return "totals"
	case strings.Contains(msg, "drain"):
		return "lost-frame"
	}
	return "other"
}

func TestVerifC09(t *testing.T) {
	run := verifrt.Start("C09")
	defer vfRestoreSeams()
	defer ksync.VerifSetYield(nil)

	var rp vf09Replay
	if run.Replaying(&rp) {
		w, bad := vf09Boot(rp.Cfg)
		if bad != "" {
			run.Violate("setup", rp.Cfg.Name, bad, rp)
			run.Finish(true, "replay", "replay")
			return
		}
		mk, s := vf09Sched(w)
		x := s.Run(mk(), rp.Schedule)
		run.Case()
		msg := x.Err
		if msg == "" && x.Deadlock {
			msg = "deadlock: some caller is blocked forever"
		}
		if msg == "" {
			msg = w.final()
		}
		if msg != "" {
			run.Violate(vf09Class(msg), fmt.Sprintf("%s %v", rp.Cfg.Name, rp.Schedule), msg, rp)
		}
		run.Finish(true, "replay", "replay of one schedule")
		return
	}

	feed := vfRegion{0x50000, 4096, 1} // consumed by the early allocator for the bitmap page: an always-full pool in front
	one := []vfRegion{feed, {0x100000, 1 * 4096, 1}}
	two := []vfRegion{feed, {0x100000, 2 * 4096, 1}}
	onetwo := []vfRegion{feed, {0x100000, 1 * 4096, 1}, {0x200000, 2 * 4096, 1}}
	big := []vfRegion{feed, {0x100000, 65 * 4096, 1}}
	// two pools two frames apart: the second starts inside the 64-bit padding span of the first one's last bitmap word
	near := []vfRegion{feed, {0x100000, 1 * 4096, 1}, {0x102000, 2 * 4096, 1}}
	// the higher region listed first (C01 restricts its maps to sorted ones; nothing in C09 does)
	desc := []vfRegion{feed, {0x200000, 2 * 4096, 1}, {0x100000, 1 * 4096, 1}}
	cfgs := []vf09Config{
		{Name: "1-frame/aa", Regions: one, Progs: []string{"a", "a"}},
		{Name: "1-frame/afa-afa", Regions: one, Progs: []string{"afa", "afa"}},
		{Name: "2-frames/af-af", Regions: two, Progs: []string{"af", "af"}},
		{Name: "2-frames/af-a-a", Regions: two, Progs: []string{"af", "a", "a"}},
		{Name: "1+2/aa-af-a", Regions: onetwo, Progs: []string{"aa", "af", "a"}},
		// racing double free of one held frame: exactly one caller succeeds (no allocation may run in these
		// configurations: a re-allocation between the two frees would make the second free a misuse of another caller's frame)
		{Name: "2-frames/double-free-race", Regions: two, PreHeld: 1, Progs: []string{"d", "d", "u"}},
		{Name: "2-frames/d-d-d", Regions: two, PreHeld: 2, Progs: []string{"d", "d", "d"}},
		{Name: "2-frames/d-then-alloc", Regions: two, PreHeld: 2, Progs: []string{"d", "a", "ua"}},
		{Name: "65-frames-63-held/aas-af", Regions: big, PreHeld: 63, Progs: []string{"aas", "af"}},
		{Name: "65-frames-63-held/ad-a-a", Regions: big, PreHeld: 63, Progs: []string{"ad", "a", "a"}},
		{Name: "2-frames/4-threads", Regions: two, Progs: []string{"a", "a", "a", "a"}},
		{Name: "1+2-near/aa-af-a", Regions: near, Progs: []string{"aa", "af", "a"}},
		{Name: "2+1-descending/aa-af-a", Regions: desc, Progs: []string{"aa", "af", "a"}},
		{Name: "1+2-near/d-d-u", Regions: near, PreHeld: 3, Progs: []string{"d", "d", "u"}},
	}
	bounds := []int{0, 1, 2, -1}
	if run.Thorough() {
		cfgs = append(cfgs,
			vf09Config{Name: "1+2/aaf-afa-aa", Regions: onetwo, Progs: []string{"aaf", "afa", "aa"}},
			vf09Config{Name: "2-frames/afaf-afaf", Regions: two, Progs: []string{"afaf", "afaf"}},
			vf09Config{Name: "2-frames/4-threads-af", Regions: two, Progs: []string{"af", "af", "a", "a"}},
			vf09Config{Name: "1-frame/5-threads", Regions: one, Progs: []string{"a", "a", "a", "a", "a"}},
			vf09Config{Name: "65-frames-63-held/asa-ada-a", Regions: big, PreHeld: 63, Progs: []string{"asa", "ada", "a"}},
			vf09Config{Name: "65-frames-64-held/d-d-u-d", Regions: big, PreHeld: 64, Progs: []string{"d", "d", "u", "d"}})
	}
	idx := 0
	complete := true
	for _, yield := range []bool{false, true} {
		for _, base := range cfgs {
			idx++
			if !run.Mine(idx) {
				continue
			}
			cfg := base
			cfg.Yield = yield
			w, bad := vf09Boot(cfg)
			if bad != "" {
				run.Violate("setup", cfg.Name, bad, vf09Replay{cfg, 0, nil})
				continue
			}
			for _, bound := range bounds {
				mk, s := vf09Sched(w)
				if bound < 0 {
					s.Visited = map[string]bool{}
				}
				s.Stop = run.OutOfBudget
				st := &vs.Stats{}
				outcomes := map[string]bool{}
				vs.Explore(mk, bound, s, func(x *vs.Exec) string {
					var sb strings.Builder
					for _, c := range w.calls {
						fmt.Fprintf(&sb, "%d%c%d%s,", c.tid, c.op, c.frame, vfErrName(c.err))
					}
					outcomes[sb.String()] = true
					return w.final()
				}, st)
				run.Evaluations += int64(st.Executions)
				run.Transitions += int64(st.Steps)
				if bound < 0 {
					run.States += int64(len(s.Visited))
				}
				for o := range outcomes {
					run.Distinct(cfg.Name + fmt.Sprint(yield) + o)
				}
				if bound < 0 {
					run.ForceSample(map[string]interface{}{"config": cfg.Name, "threads": cfg.Progs, "yield_fn": yield, "pass": "unbounded state-pruned", "schedules": st.Executions, "steps": st.Steps, "states": len(s.Visited), "distinct_result_vectors": len(outcomes)})
				}
				for _, v := range st.Violations {
					run.Violate(vf09Class(v.Msg), fmt.Sprintf("%s yield=%v %v", cfg.Name, yield, v.Choices), fmt.Sprintf("%s threads=%v yieldFn=%v preemption bound %d: %s (schedule %v)", cfg.Name, cfg.Progs, yield, bound, v.Msg, v.Threads), vf09Replay{cfg, bound, v.Choices})
				}
				if st.Stopped {
					complete = false
					run.Note("time budget reached in configuration %v at preemption bound %d; lower bounds of it were completed", cfg, bound)
					break
				}
				if len(st.Violations) > 0 {
					break
				}
			}
		}
	}
	run.Traces = run.Evaluations
	run.Finish(complete, fmt.Sprintf("%d pool/thread configurations (pools of 1, 2, 1+2 (far apart, two frames apart, and listed in descending address order) and 65-with-63-held frames; 2-4 threads (5 in thorough) x <=3 (4) operations from {alloc, free own newest/oldest, racing free of one shared frame, free of an unmanaged frame}) x yieldFn {nil, yield}: every schedule with <=%d preemptions and the unbounded state-pruned pass", len(cfgs), bounds[len(bounds)-2]),
		"stateless DFS over the real AllocFrame/FreeFrame on the instrumented spinlock; ownership table, counters, drain, brute-force linearizability and the happens-before monitor on the hooked allocator fields; distinct = (configuration, result vector)")
}
