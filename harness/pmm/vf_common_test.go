//go:build verif
// +build verif

package pmm

// Shared helpers of the physical-memory harnesses (C01, C02, C03, C09):
// a real multiboot memory-map block built in memory, the reference set of
// usable frames computed with plain integer arithmetic, the layout
// enumerator, and snapshot/restore of the complete allocator state.

import (
	"fmt"
	"unsafe"

	"github.com/ProjectSerenity/firefly/kernel"
	"github.com/ProjectSerenity/firefly/kernel/kfmt"
	"github.com/ProjectSerenity/firefly/kernel/mm"
	"github.com/ProjectSerenity/firefly/kernel/mm/vmm"
	"github.com/ProjectSerenity/firefly/kernel/multiboot"
)

type vfRegion struct {
	Addr uint64 `json:"addr"`
	Len  uint64 `json:"len"`
	Type uint32 `json:"type"`
}

// vfConfig is one boot situation: memory map, kernel placement and the number
// of extra early allocations each page mapping performs (page-table frames).
type vfConfig struct {
	Regions   []vfRegion `json:"regions"`
	KStart    uint64     `json:"kstart"` // address, page-aligned
	KEnd      uint64     `json:"kend"`   // address (exclusive), may be unaligned
	Extra     int        `json:"extra"`
	EntrySize uint32     `json:"entry_size"`
}

func (c vfConfig) String() string {
	s := ""
	for _, r := range c.Regions {
		s += fmt.Sprintf("[%#x+%#x t%d]", r.Addr, r.Len, r.Type)
	}
	return fmt.Sprintf("%s kernel=[%#x,%#x) extra=%d", s, c.KStart, c.KEnd, c.Extra)
}

var vfInfoBuf = make([]uint64, 256)

// vfSetMap writes a multiboot2 info block with one memory-map tag and makes it
// the active one.
func vfSetMap(regs []vfRegion, entrySize uint32) {
	if entrySize == 0 {
		entrySize = 24
	}
	for i := range vfInfoBuf {
		vfInfoBuf[i] = 0
	}
	b := (*[2048]byte)(unsafe.Pointer(&vfInfoBuf[0]))
	le32 := func(off int, v uint32) { *(*uint32)(unsafe.Pointer(&b[off])) = v }
	n := len(regs)
	le32(8, 6)
	le32(12, uint32(16+int(entrySize)*n))
	le32(16, entrySize)
	le32(20, 0)
	for i, r := range regs {
		o := 24 + int(entrySize)*i
		*(*uint64)(unsafe.Pointer(&b[o])) = r.Addr
		*(*uint64)(unsafe.Pointer(&b[o+8])) = r.Len
		le32(o+16, r.Type)
	}
	o := (24 + int(entrySize)*n + 7) &^ 7
	le32(o, 0)
	le32(o+4, 8)
	le32(0, uint32(o+8))
	multiboot.SetInfoPtr(uintptr(unsafe.Pointer(&vfInfoBuf[0])))
}

// vfAvail returns the whole-frame ranges [s,e) of the available regions and
// the set of all frames inside them.
func vfAvail(regs []vfRegion) (ranges [][2]uint64, all map[uint64]bool) {
	all = map[uint64]bool{}
	for _, r := range regs {
		if r.Type != 1 {
			continue
		}
		s := (r.Addr + 4095) / 4096
		e := (r.Addr + r.Len) / 4096
		if e > s {
			ranges = append(ranges, [2]uint64{s, e})
			for f := s; f < e; f++ {
				all[f] = true
			}
		}
	}
	return
}

func (c vfConfig) kernelFrames() (ks, ke uint64) { // [ks,ke)
	return c.KStart / 4096, (c.KEnd + 4095) / 4096
}

type vfNullWriter struct{}

func (vfNullWriter) Write(p []byte) (int, error) { return len(p), nil }

var vfBacking []byte
var vfBackingBase uintptr

func vfBackingInit() {
	if vfBacking == nil {
		vfBacking = make([]byte, 66*4096)
		vfBackingBase = (uintptr(unsafe.Pointer(&vfBacking[0])) + 4095) &^ 4095
	}
}

// vfBootResult is what pmm.Init did for one configuration.
type vfBootResult struct {
	Panic    interface{}
	Err      *kernel.Error
	Early    map[uint64]bool // frames the early allocator handed out before hand-over
	EarlySeq []uint64
	Mapped   int
}

// vfBoot runs the real pmm.Init on cfg with the vmm seams owned by the harness.
func vfBoot(cfg vfConfig) vfBootResult {
	vfBackingInit()
	kfmt.SetOutputSink(vfNullWriter{})
	vfSetMap(cfg.Regions, cfg.EntrySize)
	bootMemAllocator = BootMemAllocator{}
	bitmapAllocator = BitmapAllocator{}
	for i := range vfBacking {
		vfBacking[i] = 0x77
	}
	res := vfBootResult{Early: map[uint64]bool{}}
	reserveRegionFn = func(sz uintptr) (uintptr, *kernel.Error) {
		if sz > uintptr(len(vfBacking))-8192 {
			panic("verif: backing store too small for allocator state")
		}
		return vfBackingBase, nil
	}
	note := func(f mm.Frame) {
		res.Early[uint64(f)] = true
		res.EarlySeq = append(res.EarlySeq, uint64(f))
	}
	mapFn = func(p mm.Page, f mm.Frame, fl vmm.PageTableEntryFlag) *kernel.Error {
		res.Mapped++
		note(f)
		for i := 0; i < cfg.Extra; i++ {
			if ef, err := mm.AllocFrame(); err == nil {
				note(ef)
			}
		}
		return nil
	}
	func() {
		defer func() { res.Panic = recover() }()
		res.Err = Init(uintptr(cfg.KStart), uintptr(cfg.KEnd))
	}()
	return res
}

func vfRestoreSeams() {
	reserveRegionFn = vmm.EarlyReserveRegion
	mapFn = vmm.Map
	kfmt.SetOutputSink(nil)
}

// ---------------------------------------------------------------- layouts

type vfShape struct {
	gap, frames, head, tail uint64
	typ                     uint32
}

// vfLayoutsSharded enumerates sorted, non-overlapping memory maps of
// 1..maxRegions regions built from the given shapes, starting at each base
// address, and calls f for each; the (base, first shape) index selects the shard.
func vfLayoutsSharded(bases []uint64, shapes []vfShape, maxRegions int, mine func(i int) bool, f func(regs []vfRegion)) {
	build := func(cur uint64, sh vfShape) (vfRegion, uint64) {
		start := cur + sh.gap + sh.head
		var length uint64
		if sh.frames == 0 {
			if sh.head != 0 {
				length = 4096 - sh.head + 0x200 + sh.tail
			} else {
				length = 0x300 + sh.tail
			}
		} else {
			length = sh.frames*4096 + sh.tail
			if sh.head != 0 {
				length += 4096 - sh.head
			}
		}
		return vfRegion{start, length, sh.typ}, (start + length + 4095) &^ 4095
	}
	var rec func(regs []vfRegion, cur uint64, depth int)
	rec = func(regs []vfRegion, cur uint64, depth int) {
		f(regs)
		if depth == maxRegions {
			return
		}
		for _, sh := range shapes {
			r, next := build(cur, sh)
			rec(append(append([]vfRegion{}, regs...), r), next, depth+1)
		}
	}
	top := 0
	for _, b := range bases {
		for _, sh := range shapes {
			if mine(top) {
				r, next := build(b, sh)
				rec([]vfRegion{r}, next, 1)
			}
			top++
		}
	}
}

// vfPlacements returns the kernel placements (start frame, frame count) for a
// whole-frame range [s,e): at its start, middle, end, two pages, covering it.
func vfPlacements(ar [2]uint64) [][2]uint64 {
	n := ar[1] - ar[0]
	cand := [][2]uint64{{ar[0], 1}, {ar[1] - 1, 1}, {ar[0], n}}
	if n >= 3 {
		cand = append(cand, [2]uint64{ar[0] + 1, 1}, [2]uint64{ar[0], 2}, [2]uint64{ar[1] - 2, 2})
	}
	var out [][2]uint64
	seen := map[[2]uint64]bool{}
	for _, p := range cand {
		if !seen[p] {
			seen[p] = true
			out = append(out, p)
		}
	}
	return out
}

// ---------------------------------------------------------------- snapshots

type vfSnap struct {
	mem  []byte
	fc   []uint32
	rp   uint32
	lock uint32
}

func vfTake(alloc *BitmapAllocator, used int) vfSnap {
	s := vfSnap{mem: append([]byte(nil), vfBacking[:used]...), rp: alloc.reservedPages}
	for _, p := range alloc.pools {
		s.fc = append(s.fc, p.freeCount)
	}
	return s
}

func vfRestore(alloc *BitmapAllocator, s vfSnap) {
	copy(vfBacking, s.mem)
	alloc.reservedPages = s.rp
	for i := range alloc.pools {
		alloc.pools[i].freeCount = s.fc[i]
	}
}

// vfBitmapKey is the complete mutable allocator state as a string.
func vfBitmapKey(alloc *BitmapAllocator) string {
	b := make([]byte, 0, 64)
	for _, p := range alloc.pools {
		b = append(b, byte(p.freeCount), byte(p.freeCount>>8), byte(p.freeCount>>16), byte(p.freeCount>>24))
		for _, w := range p.freeBitmap {
			for k := 0; k < 8; k++ {
				b = append(b, byte(w>>(8*uint(k))))
			}
		}
	}
	b = append(b, byte(alloc.reservedPages), byte(alloc.reservedPages>>8), byte(alloc.reservedPages>>16), byte(alloc.reservedPages>>24))
	return string(b)
}
