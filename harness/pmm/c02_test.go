//go:build verif
// +build verif

package pmm

// C02 — early-boot allocator: ascending unique frames, never kernel or
// reserved RAM, replayable. Bounded-exhaustive enumeration of boot
// configurations; per configuration the real BootMemAllocator is driven to
// exhaustion and then replayed from a reset state for every prefix length.

import (
	"fmt"
	"testing"

	"github.com/ProjectSerenity/firefly/kernel/internal/verifrt"
	"github.com/ProjectSerenity/firefly/kernel/mm"
)

func vfC02Check(run *verifrt.Run, cfg vfConfig) {
	run.Case()
	report := func(class, desc string) {
		run.Violate(class, class+" "+verifrt.JSONKey(cfg), cfg.String()+": "+desc, cfg)
	}
	_, usableAll := vfAvail(cfg.Regions)
	ks, ke := cfg.kernelFrames()
	qualifies := func(f uint64) bool { return usableAll[f] && !(f >= ks && f < ke) }
	vfSetMap(cfg.Regions, cfg.EntrySize)
	var alloc BootMemAllocator
	alloc.init(uintptr(cfg.KStart), uintptr(cfg.KEnd))
	limit := len(usableAll) + 3
	var seq []uint64
	oom := false
	func() {
		defer func() {
			if p := recover(); p != nil {
				report("panic", fmt.Sprint(p))
				oom = true
			}
		}()
		for i := 0; i < limit; i++ {
			f, err := alloc.AllocFrame()
			if err != nil {
				oom = true
				if f != mm.InvalidFrame || err != errBootAllocOutOfMemory {
					report("oom-contract", fmt.Sprintf("allocation %d failed with (%d, %v), expected (InvalidFrame, out of memory)", i, f, err.Message))
				}
				// out-of-memory must be sticky
				for k := 0; k < 2; k++ {
					if f2, err2 := alloc.AllocFrame(); err2 == nil {
						report("frame-after-oom", fmt.Sprintf("allocation after out-of-memory returned frame %d", f2))
					}
				}
				if int(alloc.allocCount) != len(seq) {
					report("alloc-count", fmt.Sprintf("allocCount=%d after %d successful allocations", alloc.allocCount, len(seq)))
				}
				return
			}
			fu := uint64(f)
			if !usableAll[fu] {
				report("frame-not-available", fmt.Sprintf("allocation %d returned frame %d which is not a whole frame of available RAM", i, fu))
			} else if fu >= ks && fu < ke {
				report("kernel-frame", fmt.Sprintf("allocation %d returned frame %d inside the kernel image [%d,%d)", i, fu, ks, ke))
			}
			if len(seq) > 0 && fu <= seq[len(seq)-1] {
				report("not-ascending", fmt.Sprintf("allocation %d returned frame %d after %d", i, fu, seq[len(seq)-1]))
			}
			seq = append(seq, fu)
		}
	}()
	if !oom {
		report("no-oom", fmt.Sprintf("%d allocations succeeded although only %d frames qualify", limit, len(usableAll)))
	}
	nq := 0
	for f := range usableAll {
		if qualifies(f) {
			nq++
		}
	}
	if nq == 0 && len(seq) > 0 {
		report("frame-without-qualifying", "a frame was returned although no frame qualifies")
	}
	run.Count("frames_delivered", int64(len(seq)))
	run.Count("frames_qualifying", int64(nq))
	// hand-over replay: reset exactly as reserveEarlyAllocatorFrames does and replay every prefix length
	for n := 0; n <= len(seq); n++ {
		alloc.allocCount, alloc.lastAllocFrame = 0, 0
		for i := 0; i < n; i++ {
			f, err := alloc.AllocFrame()
			if err != nil || uint64(f) != seq[i] {
				report("replay-diverges", fmt.Sprintf("replaying %d allocations: allocation %d returned (%d, %v), originally %d", n, i, f, err, seq[i]))
				n = len(seq) + 1
				break
			}
		}
	}
	if len(seq) >= 2 {
		run.Distinct(cfg.String())
	}
	run.Transitions += int64(len(seq))
}

func TestVerifC02(t *testing.T) {
	run := verifrt.Start("C02")
	var rp vfConfig
	if run.Replaying(&rp) {
		vfC02Check(run, rp)
		run.Finish(true, "replay", "replay of one configuration")
		return
	}
	types := []uint32{1, 2}
	maxRegions := 2
	if run.Thorough() {
		types = []uint32{1, 2, 3, 5}
	}
	shapes := vfPMMShapes([]uint64{0, 1, 2, 3}, []uint64{0, 4096, 0x800}, []uint64{0, 0x400}, types)
	endSkews := []uint64{0, 0x10, 0xfff}
	each := func(regs []vfRegion) {
		vfPMMConfigs(regs, []int{0}, endSkews, func(cfg vfConfig) {
			run.Sample(cfg.String())
			vfC02Check(run, cfg)
		})
		// entry sizes above 24 bytes (the bootloader may use larger entries)
		if len(regs) == 2 {
			vfPMMConfigs(regs, []int{0}, []uint64{0x10}, func(cfg vfConfig) {
				cfg.EntrySize = 40
				vfC02Check(run, cfg)
			})
		}
	}
	vfLayoutsSharded([]uint64{0, 0x1000, 0x100000}, shapes, maxRegions, run.Mine, each)
	shapes3 := vfPMMShapes([]uint64{0, 1, 2}, []uint64{0, 4096}, []uint64{0, 0x400}, []uint32{1, 2})
	if run.Thorough() {
		shapes3 = vfPMMShapes([]uint64{0, 1, 2, 3}, []uint64{0, 4096, 0x800}, []uint64{0, 0x400}, []uint32{1, 2})
	}
	vfLayoutsSharded([]uint64{0, 0x100000}, shapes3, 3, run.Mine, func(regs []vfRegion) {
		if len(regs) == 3 {
			each(regs)
		}
	})
	// the sub-page lattice: region start and end at every combination of offsets inside their pages, <=2 regions
	vfLayoutsSharded([]uint64{0x100000}, vfPMMShapesHT([]uint64{0, 1, 2}, []uint64{0}, vfSubPage, vfSubPage, []uint32{1, 2}), 2, run.Mine, func(regs []vfRegion) {
		vfPMMConfigs(regs, []int{0}, []uint64{0, 0x10}, func(cfg vfConfig) { vfC02Check(run, cfg) })
	})
	if run.Thorough() {
		shapes4 := vfPMMShapes([]uint64{0, 1, 2}, []uint64{0, 4096}, []uint64{0}, []uint32{1, 2})
		vfLayoutsSharded([]uint64{0, 0x100000}, shapes4, 4, run.Mine, func(regs []vfRegion) {
			if len(regs) == 4 {
				each(regs)
			}
		})
	}
	run.Finish(true, fmt.Sprintf("all memory maps of <=2 regions (full shape alphabet: frames{0,1,2,3} x gaps{0,page,0x800} x head/tail skew x types %v x 3 bases), 3 regions (reduced in quick), region start/end offsets over the sub-page lattice {0,1,0x400,0x800,0xc00,0xfff}^2 for <=2 regions, 4 regions (thorough, aligned); every kernel placement x end skew {0,0x10,0xfff}; allocations to exhaustion; replay of every prefix length", types),
		"distinct by configuration; non-trivial if at least two frames were delivered")
}
