//go:build verif
// +build verif

package pmm

// C01 + C03 — explicit-state search of the real bitmap allocator, for every
// small boot configuration. One exploration, two sets of oracles; the
// property named by VERIF_PROP decides which violations are reported.
//
//   C01: a frame handed out is usable (inside available RAM, not kernel, not
//        consumed by the early allocator) and not currently held.
//   C03: Init never panics; exactly |usable| allocations succeed; counters
//        agree in every state; bad frees are rejected without a state change;
//        freeing a held frame makes exactly that frame allocatable again.

import (
	"fmt"
	"os"
	"sort"
	"testing"

	"github.com/ProjectSerenity/firefly/kernel"
	"github.com/ProjectSerenity/firefly/kernel/internal/verifrt"
	"github.com/ProjectSerenity/firefly/kernel/mm"
)

type vfPMMReplay struct {
	Cfg  vfConfig `json:"cfg"`
	Mode string   `json:"mode"` // "graph" | "drain"
}

type vfPMMChecker struct {
	run  *verifrt.Run
	prop string
}

func (c *vfPMMChecker) report(prop, class string, cfg vfConfig, mode, desc string) {
	if prop != c.prop {
		return
	}
	c.run.Violate(class, class+" "+mode+" "+verifrt.JSONKey(cfg), cfg.String()+": "+desc, vfPMMReplay{cfg, mode})
}

// checkConfig boots cfg and explores the allocator. mode "graph": BFS over all
// held sets to a fixed point (small maps). mode "drain": drain, then probe
// frees around word boundaries (large pools).
func (c *vfPMMChecker) checkConfig(cfg vfConfig, mode string) {
	run := c.run
	run.Case()
	verifrt.JournalJSON(vfPMMReplay{cfg, mode})
	avail, usableAll := vfAvail(cfg.Regions)
	ks, ke := cfg.kernelFrames()
	br := vfBoot(cfg)
	if br.Panic != nil {
		c.report("C03", "init-panic", cfg, mode, fmt.Sprintf("pmm.Init panicked: %v", br.Panic))
		return
	}
	if br.Err != nil {
		if br.Err != errBootAllocOutOfMemory {
			c.report("C03", "init-error-kind", cfg, mode, "Init failed with "+br.Err.Message)
		}
		run.Count("init_oom", 1)
		return
	}
	run.Count("init_ok", 1)
	early := br.Early
	usable := map[uint64]bool{}
	for f := range usableAll {
		if !(f >= ks && f < ke) && !early[f] {
			usable[f] = true
		}
	}
	alloc := &bitmapAllocator
	totalFrames := 0
	for _, p := range alloc.pools {
		if p.endFrame+1 > p.startFrame {
			totalFrames += int(p.endFrame - p.startFrame + 1)
		} else {
			c.report("C03", "bogus-pool", cfg, mode, fmt.Sprintf("pool [%d,%d] does not contain a frame", p.startFrame, p.endFrame))
		}
	}
	if int(alloc.totalPages) != totalFrames || totalFrames != len(usableAll) {
		c.report("C03", "total-pages", cfg, mode, fmt.Sprintf("totalPages=%d, frames in pools=%d, whole frames of available RAM=%d", alloc.totalPages, totalFrames, len(usableAll)))
	}
	if int(alloc.totalPages-alloc.reservedPages) != len(usable) {
		c.report("C03", "free-count-at-init", cfg, mode, fmt.Sprintf("reported free=%d, usable frames=%d", alloc.totalPages-alloc.reservedPages, len(usable)))
	}
	sumFree := 0
	for _, p := range alloc.pools {
		sumFree += int(p.freeCount)
	}
	if sumFree != len(usable) {
		c.report("C03", "pool-free-count-at-init", cfg, mode, fmt.Sprintf("sum of pool free counts=%d, usable frames=%d", sumFree, len(usable)))
	}

	lo, hi := ^uint64(0), uint64(0)
	for f := range usableAll {
		if f < lo {
			lo = f
		}
		if f > hi {
			hi = f
		}
	}
	// frames to try freeing: every frame of the map +-1 (graph) or word-boundary neighbours (drain);
	// frames that are reserved but were never handed out (kernel, early) are outside the alphabet.
	var probe []uint64
	if mode == "drain" {
		for _, ar := range avail {
			for _, d := range []uint64{0, 1, 31, 32, 62, 63, 64, 65, 126, 127, 128} {
				if ar[0]+d < ar[1] {
					probe = append(probe, ar[0]+d)
				}
			}
			probe = append(probe, ar[1]-1, ar[1])
			if ar[0] > 0 {
				probe = append(probe, ar[0]-1)
			}
		}
	} else {
		if lo > 0 {
			probe = append(probe, lo-1)
		}
		for f := lo; f <= hi+1; f++ {
			probe = append(probe, f)
		}
	}
	{
		var p2 []uint64
		seen := map[uint64]bool{}
		for _, f := range probe {
			if (f >= ks && f < ke) || early[f] || seen[f] {
				continue
			}
			seen[f] = true
			p2 = append(p2, f)
		}
		probe = p2
	}
	const used = 3 * 4096

	safeFree := func(f uint64) (err *kernel.Error, pan interface{}) {
		defer func() {
			if pan = recover(); pan != nil {
				alloc.mutex.Release() // the panic left the spinlock held
			}
		}()
		err = alloc.FreeFrame(mm.Frame(f))
		return
	}
	safeAlloc := func() (f mm.Frame, err *kernel.Error, pan interface{}) {
		defer func() {
			if pan = recover(); pan != nil {
				alloc.mutex.Release()
			}
		}()
		f, err = alloc.AllocFrame()
		return
	}
	counters := func(held int) string {
		if int(alloc.totalPages-alloc.reservedPages) != len(usable)-held {
			return fmt.Sprintf("reported free=%d but %d usable frames are not held", alloc.totalPages-alloc.reservedPages, len(usable)-held)
		}
		s := 0
		for _, p := range alloc.pools {
			s += int(p.freeCount)
		}
		if s != len(usable)-held {
			return fmt.Sprintf("sum of pool free counts=%d but %d usable frames are not held", s, len(usable)-held)
		}
		return ""
	}

	if mode == "drain" {
		held := map[uint64]bool{}
		for {
			f, err, pan := safeAlloc()
			run.Transitions++
			if pan != nil {
				c.report("C03", "alloc-panic", cfg, mode, fmt.Sprint(pan))
				return
			}
			if err != nil {
				if err != errBitmapAllocOutOfMemory || f != mm.InvalidFrame {
					c.report("C03", "oom-contract", cfg, mode, "allocation failure did not return (InvalidFrame, out of memory)")
				}
				break
			}
			if !usable[uint64(f)] {
				c.report("C01", "frame-not-usable", cfg, mode, fmt.Sprintf("AllocFrame returned frame %d which is not usable RAM (kernel, early-boot, reserved or outside the map)", f))
				return
			}
			if held[uint64(f)] {
				c.report("C01", "duplicate-frame", cfg, mode, fmt.Sprintf("AllocFrame returned frame %d which is already held", f))
				return
			}
			held[uint64(f)] = true
			if len(held) > len(usableAll)+2 {
				break
			}
		}
		if len(held) != len(usable) {
			c.report("C03", "completeness", cfg, mode, fmt.Sprintf("%d frames could be allocated, %d are usable", len(held), len(usable)))
		}
		if msg := counters(len(held)); msg != "" {
			c.report("C03", "counters", cfg, mode, "after drain: "+msg)
		}
		run.States++
		// single frees
		for _, f := range probe {
			before := vfBitmapKey(alloc)
			err, pan := safeFree(f)
			run.Transitions++
			if pan != nil {
				c.report("C03", "free-panic", cfg, mode, fmt.Sprintf("FreeFrame(%d) panicked: %v", f, pan))
				continue
			}
			if held[f] {
				if err != nil {
					c.report("C03", "free-of-held-failed", cfg, mode, fmt.Sprintf("FreeFrame(%d) of a held frame: %s", f, err.Message))
					continue
				}
				if msg := counters(len(held) - 1); msg != "" {
					c.report("C03", "counters", cfg, mode, fmt.Sprintf("after free(%d): %s", f, msg))
				}
				g, e2, _ := safeAlloc()
				run.Transitions++
				if e2 != nil || uint64(g) != f {
					c.report("C03", "freed-frame-not-reallocatable", cfg, mode, fmt.Sprintf("after free(%d) the next allocation returned (%d, %v)", f, g, e2))
					if e2 == nil && !usable[uint64(g)] {
						c.report("C01", "frame-not-usable", cfg, mode, fmt.Sprintf("AllocFrame returned frame %d", g))
					}
					if e2 == nil && held[uint64(g)] && uint64(g) != f {
						c.report("C01", "duplicate-frame", cfg, mode, fmt.Sprintf("AllocFrame returned held frame %d", g))
					}
				}
				if vfBitmapKey(alloc) != before {
					c.report("C03", "free-alloc-not-inverse", cfg, mode, fmt.Sprintf("free(%d) followed by alloc did not restore the state", f))
				}
			} else {
				if err == nil {
					c.report("C03", "bad-free-accepted", cfg, mode, fmt.Sprintf("FreeFrame(%d) of a frame that is not held succeeded", f))
					continue
				}
				want := errBitmapAllocFrameNotManaged
				if usableAll[f] {
					want = errBitmapAllocDoubleFree
				}
				if err != want {
					c.report("C03", "free-error-kind", cfg, mode, fmt.Sprintf("FreeFrame(%d): got %q want %q", f, err.Message, want.Message))
				}
				if vfBitmapKey(alloc) != before {
					c.report("C03", "rejected-free-changed-state", cfg, mode, fmt.Sprintf("FreeFrame(%d)", f))
				}
			}
		}
		// pairs of frees then re-allocation: both must come back, lowest first
		var heldProbe []uint64
		for _, f := range probe {
			if held[f] {
				heldProbe = append(heldProbe, f)
			}
		}
		for i := 0; i < len(heldProbe); i++ {
			for j := i + 1; j < len(heldProbe); j++ {
				a, b := heldProbe[i], heldProbe[j]
				e1, p1 := safeFree(b)
				e2, p2 := safeFree(a)
				run.Transitions += 2
				if p1 != nil || p2 != nil || e1 != nil || e2 != nil {
					continue // single-free oracle reported it
				}
				e3, _ := safeFree(a)
				if e3 != errBitmapAllocDoubleFree {
					c.report("C03", "double-free-accepted", cfg, mode, fmt.Sprintf("second FreeFrame(%d) returned %v", a, e3))
				}
				got := map[uint64]bool{}
				for k := 0; k < 2; k++ {
					g, e, _ := safeAlloc()
					run.Transitions++
					if e == nil {
						if !usable[uint64(g)] || (held[uint64(g)] && uint64(g) != a && uint64(g) != b) || got[uint64(g)] {
							c.report("C01", "duplicate-frame", cfg, mode, fmt.Sprintf("after freeing %d and %d AllocFrame returned %d", a, b, g))
						}
						got[uint64(g)] = true
					}
				}
				if !got[a] || !got[b] {
					c.report("C03", "freed-frame-not-reallocatable", cfg, mode, fmt.Sprintf("after freeing %d and %d two allocations returned %v", a, b, got))
				}
				if _, e, _ := safeAlloc(); e == nil {
					c.report("C03", "completeness", cfg, mode, "allocation succeeded although every usable frame is held")
				}
			}
		}
		run.Distinct(fmt.Sprintf("drain %d usable %d pools", len(usable), len(alloc.pools)) + cfg.String())
		return
	}

	// ---- graph mode: BFS over held sets, to a fixed point
	type st struct {
		snap vfSnap
		held []uint64 // sorted
	}
	keyOf := func(h []uint64) string { return fmt.Sprint(h) }
	initS := st{snap: vfTake(alloc, used)}
	seen := map[string]bool{keyOf(nil): true}
	frontier := []st{initS}
	nontrivial := false
	for len(frontier) > 0 {
		cur := frontier[0]
		frontier = frontier[1:]
		run.States++
		heldSet := map[uint64]bool{}
		for _, f := range cur.held {
			heldSet[f] = true
		}
		// Alloc
		vfRestore(alloc, cur.snap)
		f, err, pan := safeAlloc()
		run.Transitions++
		switch {
		case pan != nil:
			c.report("C03", "alloc-panic", cfg, mode, fmt.Sprint(pan))
		case err != nil:
			if err != errBitmapAllocOutOfMemory || f != mm.InvalidFrame {
				c.report("C03", "oom-contract", cfg, mode, "allocation failure did not return (InvalidFrame, out of memory)")
			}
			if len(cur.held) != len(usable) {
				c.report("C03", "completeness", cfg, mode, fmt.Sprintf("out of memory with %v held although %d frames are usable", cur.held, len(usable)))
			}
		default:
			if !usable[uint64(f)] {
				c.report("C01", "frame-not-usable", cfg, mode, fmt.Sprintf("with %v held AllocFrame returned frame %d which is not usable RAM (kernel, early-boot, reserved or outside the map)", cur.held, f))
			} else if heldSet[uint64(f)] {
				c.report("C01", "duplicate-frame", cfg, mode, fmt.Sprintf("with %v held AllocFrame returned %d again", cur.held, f))
			} else {
				nh := append(append([]uint64{}, cur.held...), uint64(f))
				sort.Slice(nh, func(i, j int) bool { return nh[i] < nh[j] })
				if msg := counters(len(nh)); msg != "" {
					c.report("C03", "counters", cfg, mode, fmt.Sprintf("after alloc with %v held: %s", nh, msg))
				}
				if k := keyOf(nh); !seen[k] {
					seen[k] = true
					frontier = append(frontier, st{vfTake(alloc, used), nh})
				}
				if len(nh) >= 2 {
					nontrivial = true
				}
			}
		}
		// Free(f) for every probe frame
		for _, pf := range probe {
			vfRestore(alloc, cur.snap)
			before := vfBitmapKey(alloc)
			ferr, pan := safeFree(pf)
			run.Transitions++
			if pan != nil {
				c.report("C03", "free-panic", cfg, mode, fmt.Sprintf("with %v held FreeFrame(%d) panicked: %v", cur.held, pf, pan))
				continue
			}
			if heldSet[pf] {
				if ferr != nil {
					c.report("C03", "free-of-held-failed", cfg, mode, fmt.Sprintf("with %v held FreeFrame(%d): %s", cur.held, pf, ferr.Message))
					continue
				}
				var nh []uint64
				for _, h := range cur.held {
					if h != pf {
						nh = append(nh, h)
					}
				}
				if msg := counters(len(nh)); msg != "" {
					c.report("C03", "counters", cfg, mode, fmt.Sprintf("after free(%d): %s", pf, msg))
				}
				if k := keyOf(nh); !seen[k] {
					seen[k] = true
					frontier = append(frontier, st{vfTake(alloc, used), nh})
				}
			} else {
				if ferr == nil {
					c.report("C03", "bad-free-accepted", cfg, mode, fmt.Sprintf("with %v held FreeFrame(%d) of a frame that is not held succeeded", cur.held, pf))
					continue
				}
				want := errBitmapAllocFrameNotManaged
				if usableAll[pf] {
					want = errBitmapAllocDoubleFree
				}
				if ferr != want {
					c.report("C03", "free-error-kind", cfg, mode, fmt.Sprintf("FreeFrame(%d): got %q want %q", pf, ferr.Message, want.Message))
				}
				if after := vfBitmapKey(alloc); after != before {
					c.report("C03", "rejected-free-changed-state", cfg, mode, fmt.Sprintf("with %v held FreeFrame(%d)", cur.held, pf))
					// the allocator is now in a state no valid history reaches: follow it too, so that what it hands
					// out afterwards is checked against the ownership model (C01)
					if k := keyOf(cur.held) + "|" + after; !seen[k] && len(seen) < 4000 {
						seen[k] = true
						frontier = append(frontier, st{vfTake(alloc, used), cur.held})
					}
				}
			}
		}
		if len(seen) > 5000 {
			break
		}
	}
	if nontrivial {
		run.Distinct(cfg.String())
	}
}

func vfPMMShapes(frames []uint64, gaps, skews []uint64, types []uint32) []vfShape {
	var shapes []vfShape
	for _, g := range gaps {
		for _, f := range frames {
			for _, h := range skews {
				for _, tl := range skews {
					for _, ty := range types {
						shapes = append(shapes, vfShape{g, f, h, tl, ty})
					}
				}
			}
		}
	}
	return shapes
}

// vfPMMShapesHT is vfPMMShapes with separate alphabets for the offset of the region start and of the region end inside
// their pages (the sub-page lattice: only the order of the two offsets relative to each other, to half a page and to the
// page boundaries can matter to frame arithmetic).
func vfPMMShapesHT(frames []uint64, gaps, heads, tails []uint64, types []uint32) []vfShape {
	var shapes []vfShape
	for _, g := range gaps {
		for _, f := range frames {
			for _, h := range heads {
				for _, tl := range tails {
					for _, ty := range types {
						shapes = append(shapes, vfShape{g, f, h, tl, ty})
					}
				}
			}
		}
	}
	return shapes
}

var vfSubPage = []uint64{0, 1, 0x400, 0x800, 0xc00, 0xfff}

// vfPMMConfigs derives the kernel placements / early extras for one layout.
func vfPMMConfigs(regs []vfRegion, extras []int, endSkews []uint64, f func(cfg vfConfig)) {
	avail, _ := vfAvail(regs)
	for _, ar := range avail {
		for _, pl := range vfPlacements(ar) {
			for _, es := range endSkews {
				for _, ex := range extras {
					f(vfConfig{Regions: regs, KStart: pl[0] * 4096, KEnd: (pl[0]+pl[1])*4096 - es, Extra: ex})
				}
			}
		}
	}
}

func TestVerifPMM(t *testing.T) {
	prop := os.Getenv("VERIF_PROP")
	if prop != "C01" && prop != "C03" {
		t.Fatalf("VERIF_PROP must be C01 or C03")
	}
	run := verifrt.Start(prop)
	defer vfRestoreSeams()
	c := &vfPMMChecker{run: run, prop: prop}

	var rp vfPMMReplay
	if run.Replaying(&rp) {
		c.checkConfig(rp.Cfg, rp.Mode)
		run.Finish(true, "replay", "replay of one configuration")
		return
	}

	// Tier A: small maps, full graph search per configuration
	maxRegions := 2
	frames := []uint64{0, 1, 2, 3}
	types := []uint32{1, 2}
	extras := []int{0, 1, 2}
	endSkews := []uint64{0x10}
	bases := []uint64{0, 0x1000, 0x100000}
	gaps := []uint64{0, 4096, 0x800}
	if run.Thorough() {
		types = []uint32{1, 2, 5, 0xFFFFFFFF}
		endSkews = []uint64{0, 0x10}
	}
	shapes := vfPMMShapes(frames, gaps, []uint64{0, 0x400}, types)
	nA := 0
	vfLayoutsSharded(bases, shapes, maxRegions, run.Mine, func(regs []vfRegion) {
		vfPMMConfigs(regs, extras, endSkews, func(cfg vfConfig) {
			nA++
			run.Sample(map[string]string{"tier": "graph", "config": cfg.String()})
			c.checkConfig(cfg, "graph")
		})
	})
	// the bootloader may use memory-map entries larger than 24 bytes: a subset of the layouts again with 40-byte entries
	nE := 0
	vfLayoutsSharded([]uint64{0x100000}, vfPMMShapes([]uint64{0, 1, 2, 3}, []uint64{0, 0x800}, []uint64{0, 0x400}, []uint32{1, 2}), 2, run.Mine, func(regs []vfRegion) {
		vfPMMConfigs(regs, []int{0, 2}, []uint64{0x10}, func(cfg vfConfig) {
			cfg.EntrySize = 40
			nE++
			c.checkConfig(cfg, "graph")
		})
	})
	run.Count("graph_configs_entry_size_40", int64(nE))
	run.Count("graph_configs", int64(nA))
	// Tier A3: three regions, reduced shapes (a pool that the early-boot allocator skips entirely - e.g. one filled by the
	// kernel image - between two others needs three regions); quick runs a further reduced shape set
	if !run.Thorough() {
		shapes3 := vfPMMShapes([]uint64{1, 2}, []uint64{0, 4096}, []uint64{0}, []uint32{1, 2})
		n3 := 0
		vfLayoutsSharded([]uint64{0x100000}, shapes3, 3, run.Mine, func(regs []vfRegion) {
			if len(regs) != 3 {
				return
			}
			vfPMMConfigs(regs, []int{0, 2}, []uint64{0x10}, func(cfg vfConfig) {
				n3++
				c.checkConfig(cfg, "graph")
			})
		})
		run.Count("graph_configs_3_regions", int64(n3))
	}
	if run.Thorough() {
		shapes3 := vfPMMShapes([]uint64{0, 1, 2}, []uint64{0, 4096}, []uint64{0, 0x400}, []uint32{1, 2})
		n3 := 0
		vfLayoutsSharded([]uint64{0, 0x100000}, shapes3, 3, run.Mine, func(regs []vfRegion) {
			if len(regs) != 3 {
				return
			}
			vfPMMConfigs(regs, []int{0, 1}, []uint64{0x10}, func(cfg vfConfig) {
				n3++
				c.checkConfig(cfg, "graph")
			})
		})
		run.Count("graph_configs_3_regions", int64(n3))
	}
	// Tier A4: the sub-page lattice - region start and end at every combination of offsets {0,1,quarter,half,three
	// quarters,0xfff} inside their pages, one region and (available regions only) two regions
	{
		n4 := 0
		vfLayoutsSharded([]uint64{0x100000}, vfPMMShapesHT([]uint64{0, 1, 2}, []uint64{0}, vfSubPage, vfSubPage, []uint32{1}), 2, run.Mine, func(regs []vfRegion) {
			vfPMMConfigs(regs, []int{0, 1}, []uint64{0x10}, func(cfg vfConfig) {
				n4++
				c.checkConfig(cfg, "graph")
			})
		})
		run.Count("graph_configs_sub_page_lattice", int64(n4))
	}
	// Tier B: bitmap word boundaries, drain + free probes
	big := vfPMMShapes([]uint64{1, 63, 64, 65, 128, 129}, []uint64{0, 4096}, []uint64{0}, []uint32{1, 2})
	big = append(big, vfShape{0, 65, 0x400, 0x400, 1}, vfShape{0, 129, 0, 0x400, 1}, vfShape{0, 64, 0x400, 0, 1})
	nB := 0
	vfLayoutsSharded([]uint64{0x100000, 0}, big, 2, run.Mine, func(regs []vfRegion) {
		vfPMMConfigs(regs, extras, []uint64{0x10}, func(cfg vfConfig) {
			nB++
			run.Sample(map[string]string{"tier": "drain", "config": cfg.String()})
			c.checkConfig(cfg, "drain")
		})
	})
	run.Count("drain_configs", int64(nB))
	run.Traces = run.Transitions
	run.Finish(true,
		fmt.Sprintf("all memory maps of <=%d regions (plus 3 regions over reduced shapes: frames{1,2} in quick, {0,1,2} in thorough) over frames{0,1,2,3} x gaps x head/tail skew x types %v x 3 bases, every kernel placement (start/middle/end/2 pages/covering), early extras %v, memory-map entry sizes 24 and 40; region start/end offsets over the sub-page lattice {0,1,0x400,0x800,0xc00,0xfff}^2 for one and two regions: held-set graph to a fixed point; plus word-boundary pools {1,63,64,65,128,129} frames: drain, single and pairwise frees", maxRegions, types, extras),
		"a configuration is distinct by (map, kernel, extras) and non-trivial if at least two frames were held at once (graph) or the pool was drained (drain)")
}
