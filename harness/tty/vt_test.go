//go:build verif
// +build verif

package tty

// C17 (terminal state == reference terminal) and the deep part of C18
// (active terminal == console, against a reference cell-grid console).
// Explicit-state BFS over the real tty.VT; for small geometries to a fixed
// point. VERIF_PROP selects which oracle reports.

import (
	"fmt"
	"image/color"
	"os"
	"strings"
	"testing"

	"github.com/ProjectSerenity/firefly/kernel/device/video/console"
	"github.com/ProjectSerenity/firefly/kernel/internal/verifrt"
)

type vfCell struct{ ch, fg, bg uint8 }

// vfGrid is a reference console: a matrix of cells with the clipping rules the
// console contract states (Write outside the grid ignored, Fill clamped/clipped,
// Scroll by 1..height).
type vfGrid struct {
	w, h  uint32
	cells []vfCell
}

func vfNewGrid(w, h uint32) *vfGrid {
	return &vfGrid{w: w, h: h, cells: make([]vfCell, w*h)} // {0,0,0}: distinct from a blank
}
func (g *vfGrid) Dimensions(console.Dimension) (uint32, uint32) { return g.w, g.h }
func (g *vfGrid) DefaultColors() (uint8, uint8)                 { return 7, 0 }
func (g *vfGrid) Fill(x, y, w, h uint32, fg, bg uint8) {
	if x == 0 {
		x = 1
	} else if x > g.w {
		x = g.w
	}
	if y == 0 {
		y = 1
	} else if y > g.h {
		y = g.h
	}
	if w > g.w-x+1 {
		w = g.w - x + 1
	}
	if h > g.h-y+1 {
		h = g.h - y + 1
	}
	for yy := y; yy < y+h; yy++ {
		for xx := x; xx < x+w; xx++ {
			g.cells[(yy-1)*g.w+xx-1] = vfCell{' ', fg, bg}
		}
	}
}
func (g *vfGrid) Scroll(dir console.ScrollDir, lines uint32) {
	if lines == 0 || lines > g.h {
		return
	}
	if dir == console.ScrollDirUp {
		copy(g.cells, g.cells[lines*g.w:])
	} else {
		copy(g.cells[lines*g.w:], g.cells[:(g.h-lines)*g.w])
	}
}
func (g *vfGrid) Write(ch byte, fg, bg uint8, x, y uint32) {
	if x < 1 || x > g.w || y < 1 || y > g.h {
		return
	}
	g.cells[(y-1)*g.w+x-1] = vfCell{ch, fg, bg}
}
func (g *vfGrid) Palette() color.Palette            { return nil }
func (g *vfGrid) SetPaletteColor(uint8, color.RGBA) {}

// vfRefTerm is the reference terminal written from the property statement.
type vfRefTerm struct {
	w, h, sb uint32
	tab      uint8
	buf      []vfCell // w*(h+sb)
	cx, cy   uint32
	vy       uint32
}

func vfNewRef(w, h, sb uint32, tab uint8) *vfRefTerm {
	r := &vfRefTerm{w: w, h: h, sb: sb, tab: tab, cx: 1, cy: 1, buf: make([]vfCell, w*(h+sb))}
	for i := range r.buf {
		r.buf[i] = vfCell{' ', 7, 0}
	}
	return r
}
func (r *vfRefTerm) put(b byte, adv bool) {
	r.buf[(r.vy+r.cy-1)*r.w+r.cx-1] = vfCell{b, 7, 0}
	if adv {
		r.cx++
		if r.cx > r.w {
			r.lf()
		}
	}
}
func (r *vfRefTerm) lf() {
	r.cx = 1
	if r.cy < r.h {
		r.cy++
		return
	}
	if r.vy+r.h < r.h+r.sb {
		r.vy++
		return
	}
	for y := r.vy; y < r.vy+r.h-1; y++ {
		copy(r.buf[y*r.w:(y+1)*r.w], r.buf[(y+1)*r.w:(y+2)*r.w])
	}
	for x := uint32(0); x < r.w; x++ {
		r.buf[(r.vy+r.h-1)*r.w+x] = vfCell{' ', 7, 0}
	}
}
func (r *vfRefTerm) write(b byte) {
	switch b {
	case '\r':
		r.cx = 1
	case '\n':
		r.lf()
	case '\b':
		if r.cx > 1 {
			r.cx--
			r.put(' ', false)
		}
	case '\t':
		for i := uint8(0); i < r.tab; i++ {
			r.put(' ', true)
		}
	default:
		r.put(b, true)
	}
}
func (r *vfRefTerm) setCursor(x, y uint32) {
	if x < 1 {
		x = 1
	} else if x > r.w {
		x = r.w
	}
	if y < 1 {
		y = 1
	} else if y > r.h {
		y = r.h
	}
	r.cx, r.cy = x, y
}
func (r *vfRefTerm) clone() *vfRefTerm {
	c := *r
	c.buf = append([]vfCell(nil), r.buf...)
	return &c
}

type vfVTState struct {
	vt   VT
	cons *vfGrid
	ref  *vfRefTerm
}

func (s *vfVTState) clone() *vfVTState {
	n := &vfVTState{vt: s.vt, ref: s.ref.clone()}
	n.vt.data = append([]uint8(nil), s.vt.data...)
	g := *s.cons
	g.cells = append([]vfCell(nil), s.cons.cells...)
	n.cons = &g
	n.vt.cons = n.cons
	return n
}

type vfGeom struct {
	W, H, SB uint32
	Tab      uint8
}

type vfVTReplay struct {
	Geom   vfGeom   `json:"geom"`
	Events []string `json:"events"`
}

type vfEvent struct {
	name string
	f    func(s *vfVTState)
}

func vfVTEvents(g vfGeom, printable []byte) []vfEvent {
	var evs []vfEvent
	bytesIn := append(append([]byte{}, printable...), '\r', '\n', '\b', '\t')
	for _, b := range bytesIn {
		b := b
		evs = append(evs, vfEvent{fmt.Sprintf("w%02x", b), func(s *vfVTState) { s.vt.WriteByte(b); s.ref.write(b) }})
	}
	seen := map[[2]uint32]bool{}
	for _, x := range []uint32{0, 1, 2, g.W, g.W + 1, 1<<32 - 1} {
		for _, y := range []uint32{0, 1, 2, g.H, g.H + 1, 1<<32 - 1} {
			x, y := x, y
			// cursor moves that clamp to the same cell are the same transition; keep one raw form per target plus the extremes
			if seen[[2]uint32{x, y}] {
				continue
			}
			seen[[2]uint32{x, y}] = true
			evs = append(evs, vfEvent{fmt.Sprintf("c%d,%d", x, y), func(s *vfVTState) { s.vt.SetCursorPosition(x, y); s.ref.setCursor(x, y) }})
		}
	}
	evs = append(evs, vfEvent{"act", func(s *vfVTState) { s.vt.SetState(StateActive) }})
	evs = append(evs, vfEvent{"inact", func(s *vfVTState) { s.vt.SetState(StateInactive) }})
	// a multi-byte Write (io.Writer path)
	evs = append(evs, vfEvent{"W:a\\n", func(s *vfVTState) { s.vt.Write([]byte{'a', '\n'}); s.ref.write('a'); s.ref.write('\n') }})
	return evs
}

// vfStreamEvents expands a repeated pattern into the first n event names (for replay files).
func vfStreamEvents(pattern []vfEvent, n int) []string {
	out := make([]string, n)
	for i := range out {
		out[i] = pattern[i%len(pattern)].name
	}
	return out
}

func vfVTInit(g vfGeom) *vfVTState {
	s := &vfVTState{cons: vfNewGrid(g.W, g.H), ref: vfNewRef(g.W, g.H, g.SB, g.Tab)}
	s.vt = *NewVT(g.Tab, g.SB)
	s.vt.AttachTo(s.cons)
	return s
}

// vfVTCheck applies the oracles after one event. before: console cells before the event.
func vfVTCheck(prop string, n *vfVTState, g vfGeom, ev string, before []vfCell, pan interface{}) (class, desc string) {
	if pan != nil {
		// a Go bounds panic is how "touches memory outside the terminal's buffer" manifests (the buffer is exactly sized)
		return "panic", fmt.Sprintf("event %s panicked: %v", ev, pan)
	}
	if prop == "C17" {
		if n.vt.cursorX != n.ref.cx || n.vt.cursorY != n.ref.cy {
			return "cursor", fmt.Sprintf("cursor is (%d,%d), reference (%d,%d)", n.vt.cursorX, n.vt.cursorY, n.ref.cx, n.ref.cy)
		}
		if n.vt.viewportY != n.ref.vy {
			return "viewport", fmt.Sprintf("viewport origin is line %d, reference %d", n.vt.viewportY, n.ref.vy)
		}
		if x, y := n.vt.CursorPosition(); x != n.ref.cx || y != n.ref.cy {
			return "cursor", "CursorPosition() disagrees with the reference"
		}
		if len(n.vt.data) != 3*len(n.ref.buf) {
			return "buffer-size", fmt.Sprintf("buffer has %d bytes, expected %d", len(n.vt.data), 3*len(n.ref.buf))
		}
		for i, c := range n.ref.buf {
			if n.vt.data[3*i] != c.ch || n.vt.data[3*i+1] != c.fg || n.vt.data[3*i+2] != c.bg {
				return "contents", fmt.Sprintf("cell %d (line %d col %d) holds (%q,%d,%d), reference (%q,%d,%d)", i, uint32(i)/g.W+1, uint32(i)%g.W+1, n.vt.data[3*i], n.vt.data[3*i+1], n.vt.data[3*i+2], c.ch, c.fg, c.bg)
			}
		}
		if n.vt.cursorX < 1 || n.vt.cursorX > g.W || n.vt.cursorY < 1 || n.vt.cursorY > g.H {
			return "cursor-outside-viewport", fmt.Sprintf("cursor (%d,%d)", n.vt.cursorX, n.vt.cursorY)
		}
		return "", ""
	}
	// C18 (grid console): the console must show the terminal's own viewport
	if n.vt.state == StateActive {
		// the viewport's line y is buffer line viewportY+y; taken modulo the number of buffer lines, so that a buffer
		// organised as a ring of lines reads the same way as a linear one (for which the modulo never applies)
		lines := uint32(len(n.vt.data)) / (3 * g.W)
		if lines == 0 {
			return "console-differs", "the terminal has no buffer"
		}
		for y := uint32(0); y < g.H; y++ {
			for x := uint32(0); x < g.W; x++ {
				o := (((n.vt.viewportY+y)%lines)*g.W + x) * 3
				want := vfCell{n.vt.data[o], n.vt.data[o+1], n.vt.data[o+2]}
				if got := n.cons.cells[y*g.W+x]; got != want {
					return "console-differs", fmt.Sprintf("active terminal: console cell (%d,%d) shows (%q,%d,%d), viewport holds (%q,%d,%d)", x+1, y+1, got.ch, got.fg, got.bg, want.ch, want.fg, want.bg)
				}
			}
		}
	} else if ev != "inact" {
		for i := range before {
			if before[i] != n.cons.cells[i] {
				return "console-touched-while-inactive", fmt.Sprintf("event %s changed console cell %d while the terminal is inactive", ev, i)
			}
		}
	}
	return "", ""
}

func vfVTKey(prop string, s *vfVTState) string {
	var sb strings.Builder
	sb.Write(s.vt.data)
	sb.WriteByte(byte(s.vt.cursorX))
	sb.WriteByte(byte(s.vt.cursorY))
	sb.WriteByte(byte(s.vt.viewportY))
	sb.WriteByte(byte(s.vt.state))
	if prop != "C17" {
		for _, c := range s.cons.cells {
			sb.WriteByte(c.ch)
			sb.WriteByte(c.fg)
			sb.WriteByte(c.bg)
		}
	}
	return sb.String()
}

func vfVTSearch(run *verifrt.Run, prop string, g vfGeom, printable []byte, maxDepth int) bool {
	evs := vfVTEvents(g, printable)
	gr := &verifrt.Graph{
		MaxDepth: maxDepth,
		KeepPath: true,
		Stop:     run.OutOfBudget,
		Key:      func(s interface{}) string { return vfVTKey(prop, s.(*vfVTState)) },
	}
	gr.Succ = func(gr *verifrt.Graph, id int, s interface{}, emit func(string, interface{})) {
		st := s.(*vfVTState)
		for _, e := range evs {
			n := st.clone()
			before := st.cons.cells
			var pan interface{}
			func() {
				defer func() { pan = recover() }()
				e.f(n)
			}()
			run.Case()
			if class, desc := vfVTCheck(prop, n, g, e.name, before, pan); class != "" {
				hist := append(gr.Path(id), e.name)
				run.Violate(class, fmt.Sprintf("%dx%d sb%d tab%d %s", g.W, g.H, g.SB, g.Tab, strings.Join(hist, " ")),
					fmt.Sprintf("console %dx%d scrollback %d tab %d after [%s]: %s", g.W, g.H, g.SB, g.Tab, strings.Join(hist, " "), desc), vfVTReplay{g, hist})
				continue
			}
			emit(e.name, n)
		}
	}
	gr.Run([]interface{}{vfVTInit(g)})
	run.States += gr.States
	run.Transitions += gr.Transitions
	run.Traces += gr.Transitions
	run.Distinct(fmt.Sprintf("%v/%d", g, gr.States))
	run.ForceSample(map[string]interface{}{"geometry": fmt.Sprintf("%dx%d scrollback %d tab %d", g.W, g.H, g.SB, g.Tab), "printable": string(printable), "states": gr.States, "transitions": gr.Transitions, "fixed_point": gr.Complete, "depth": gr.Depth})
	return gr.Complete || gr.DepthCapped
}

func TestVerifVT(t *testing.T) {
	prop := os.Getenv("VERIF_PROP")
	if prop != "C17" && prop != "C18" {
		t.Fatalf("VERIF_PROP must be C17 or C18")
	}
	run := verifrt.Start(prop)

	var rp vfVTReplay
	if run.Replaying(&rp) {
		evs := map[string]vfEvent{}
		for _, e := range vfVTEvents(rp.Geom, []byte{'a', 'b'}) {
			evs[e.name] = e
		}
		s := vfVTInit(rp.Geom)
		for i, name := range rp.Events {
			e, ok := evs[name]
			if !ok {
				t.Fatalf("unknown event %q", name)
			}
			before := append([]vfCell(nil), s.cons.cells...)
			var pan interface{}
			func() {
				defer func() { pan = recover() }()
				e.f(s)
			}()
			run.Case()
			if class, desc := vfVTCheck(prop, s, rp.Geom, name, before, pan); class != "" {
				g := rp.Geom
				run.Violate(class, fmt.Sprintf("%dx%d sb%d tab%d %s", g.W, g.H, g.SB, g.Tab, strings.Join(rp.Events[:i+1], " ")), desc, vfVTReplay{g, rp.Events[:i+1]})
				break
			}
		}
		run.Finish(true, "replay", "replay of one event history")
		return
	}

	maxCells, maxCells2 := uint32(9), uint32(4)
	depth2 := 6
	if run.Thorough() {
		maxCells, maxCells2 = 12, 8
		depth2 = 8
		if prop == "C18" {
			// the console cells are part of the state here: keep the fixed-point search within memory
			maxCells, maxCells2 = 10, 6
			depth2 = 7
		}
	}
	complete := true
	idx := 0
	// fixed point with one printable symbol
	for w := uint32(1); w <= 4; w++ {
		for h := uint32(1); h <= 4; h++ {
			for sb := uint32(0); sb <= 2; sb++ {
				for _, tab := range []uint8{0, 1, 2, 5} {
					if w*(h+sb) > maxCells {
						continue
					}
					idx++
					if !run.Mine(idx) {
						continue
					}
					if !vfVTSearch(run, prop, vfGeom{w, h, sb, tab}, []byte{'a'}, -1) {
						complete = false
					}
				}
			}
		}
	}
	// fixed point with two printable symbols on the smaller geometries
	for w := uint32(1); w <= 4; w++ {
		for h := uint32(1); h <= 4; h++ {
			for sb := uint32(0); sb <= 2; sb++ {
				for _, tab := range []uint8{0, 2} {
					if w*(h+sb) > maxCells2 {
						continue
					}
					idx++
					if !run.Mine(idx) {
						continue
					}
					if !vfVTSearch(run, prop, vfGeom{w, h, sb, tab}, []byte{'a', 'b'}, -1) {
						complete = false
					}
				}
			}
		}
	}
	// two printable symbols (a mis-copied line is distinguishable), bounded depth, larger geometries too
	for _, g := range []vfGeom{{2, 2, 1, 2}, {3, 2, 1, 4}, {2, 3, 2, 1}, {4, 2, 1, 4}, {3, 3, 3, 2}, {1, 1, 0, 0}, {1, 2, 1, 1}, {5, 2, 0, 3}} {
		idx++
		if !run.Mine(idx) {
			continue
		}
		if !vfVTSearch(run, prop, g, []byte{'a', 'b'}, depth2) {
			complete = false
		}
	}
	// large geometries (the shipped 80x25 with scrollback 80 and tab 4; consoles wider than very wide tabs): structured
	// streams - every ordered pair (triple on the smaller ones) of events repeated until the buffer has scrolled twice -
	// compared with the reference after every event
	type bigGeom struct {
		g      vfGeom
		triple bool
	}
	for _, bg := range []bigGeom{{vfGeom{80, 25, 80, 4}, false}, {vfGeom{90, 3, 2, 86}, true}, {vfGeom{300, 2, 1, 255}, true}, {vfGeom{87, 2, 0, 86}, true}, {vfGeom{132, 4, 3, 128}, true}, {vfGeom{129, 2, 1, 128}, true}, {vfGeom{40, 3, 1, 200}, true}} {
		idx++
		if !run.Mine(idx) {
			continue
		}
		g := bg.g
		evs := vfVTEvents(g, []byte{'a', 'b'})
		var core []vfEvent
		for _, e := range evs {
			if strings.HasPrefix(e.name, "w") || e.name == "act" || e.name == "inact" || e.name == "c1,1" || e.name == fmt.Sprintf("c%d,%d", g.W, g.H) {
				core = append(core, e)
			}
		}
		runStream := func(pattern []vfEvent) {
			s := vfVTInit(g)
			var hist []string
			limit := int(2*(g.H+g.SB)+3) * len(pattern)
			if g.W*uint32(len(pattern)) > 0 {
				// printable-only patterns need a whole line of events per line feed
				limit = int(2*(g.H+g.SB)+3) * int(g.W+1)
			}
			if limit > 60000 {
				limit = 60000
			}
			scrolls := 0
			for i := 0; i < limit && scrolls < int(2*(g.H+g.SB)+2); i++ {
				e := pattern[i%len(pattern)]
				before := append([]vfCell(nil), s.cons.cells...)
				prevVY, prevCY := s.ref.vy, s.ref.cy
				var pan interface{}
				func() {
					defer func() { pan = recover() }()
					e.f(s)
				}()
				hist = append(hist, e.name)
				run.Case()
				run.Transitions++
				if class, desc := vfVTCheck(prop, s, g, e.name, before, pan); class != "" {
					if len(hist) > 400 {
						hist = hist[len(hist)-400:] // the replay file keeps the tail; the key carries the pattern
					}
					var pn []string
					for _, pe := range pattern {
						pn = append(pn, pe.name)
					}
					run.Violate(class, fmt.Sprintf("stream %dx%d sb%d tab%d pattern %s", g.W, g.H, g.SB, g.Tab, strings.Join(pn, " ")),
						fmt.Sprintf("console %dx%d scrollback %d tab %d, pattern [%s] repeated, event %d: %s", g.W, g.H, g.SB, g.Tab, strings.Join(pn, " "), i, desc), vfVTReplay{g, vfStreamEvents(pattern, i+1)})
					return
				}
				if s.ref.vy != prevVY || (s.ref.cy == prevCY && (e.name == "w0a")) {
					scrolls++
				}
			}
		}
		for _, e1 := range core {
			for _, e2 := range core {
				runStream([]vfEvent{e1, e2})
				if bg.triple {
					for _, e3 := range core {
						runStream([]vfEvent{e1, e2, e3})
					}
				}
			}
		}
		run.States++
		run.ForceSample(map[string]interface{}{"geometry": fmt.Sprintf("%dx%d scrollback %d tab %d", g.W, g.H, g.SB, g.Tab), "streams": "every ordered pair/triple of events repeated past two full scrolls"})
	}
	run.Finish(complete, fmt.Sprintf("fixed point of reachable states for every geometry with <=%d buffer cells (w,h in 1..4, scrollback 0..2, tab {0,1,2,5}; printable {a,b} up to %d cells) over events {a, CR, LF, BS, TAB, 'a\\n' Write, cursor moves to {0,1,2,dim,dim+1,2^32-1}^2, activate, deactivate}; plus 8 geometries with printable {a,b} to depth %d; plus structured streams (every ordered pair / triple of events repeated past two full scrolls) on 80x25/scrollback 80/tab 4 and six consoles wider than very wide tabs (86..255)", maxCells, maxCells2, depth2),
		"BFS on the real tty.VT with snapshot cloning; distinct = (geometry, number of reachable states)")
}
