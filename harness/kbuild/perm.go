//go:build verif
// +build verif

package main

import (
	"fmt"
	"go/ast"
	"reflect"
	"sort"
)

// verifKVPair is one map entry handed to a rewritten range loop.
type verifKVPair struct {
	Key interface{}
	Val interface{}
}

// verifPermChoice is set by the harness: given the number of keys of the map
// being ranged over, it returns the iteration order (a permutation of 0..n-1
// over the canonically sorted keys).
var verifPermChoice func(n int) []int

// verifPermMap replaces Go's randomised map iteration by an enumerated choice.
func verifPermMap(m interface{}) []verifKVPair {
	v := reflect.ValueOf(m)
	keys := v.MapKeys()
	sort.Slice(keys, func(i, j int) bool { return verifKeyLess(keys[i].Interface(), keys[j].Interface()) })
	n := len(keys)
	perm := make([]int, n)
	for i := range perm {
		perm[i] = i
	}
	if verifPermChoice != nil {
		perm = verifPermChoice(n)
	}
	out := make([]verifKVPair, n)
	for i, j := range perm {
		out[i] = verifKVPair{keys[j].Interface(), v.MapIndex(keys[j]).Interface()}
	}
	return out
}

func verifKeyLess(a, b interface{}) bool {
	switch x := a.(type) {
	case ast.Node:
		y := b.(ast.Node)
		if x.Pos() != y.Pos() {
			return x.Pos() < y.Pos()
		}
		if x.End() != y.End() {
			return x.End() < y.End()
		}
		return fmt.Sprintf("%T", x) < fmt.Sprintf("%T", y)
	case string:
		return x < b.(string)
	case int:
		return x < b.(int)
	}
	panic(fmt.Sprintf("verifPermMap: no canonical order for key type %T", a))
}
