//go:build verif
// +build verif

package main

// C20 — the kernel build finds every runtime redirect, exactly once,
// reproducibly. FindRedirects is compiled from a copy of redirects.go in which
// every map-typed range statement iterates in an order chosen by the explorer
// (tools/instr-maprange). Generated source trees x every iteration order of
// every map range; the resulting table must equal an independent scanner's
// ordered list under every order.

import (
	"fmt"
	"go/ast"
	"go/parser"
	"go/token"
	"io/ioutil"
	"os"
	"path/filepath"
	"sort"
	"strings"
	"testing"

	"github.com/ProjectSerenity/firefly/kbuild/internal/verifrt"
)

// ---- source tree alphabet

type vfItem struct {
	name string
	src  string // %s is replaced by a unique suffix
}

var vfItems = []vfItem{
	{"plain", "// F%[1]s does things.\nfunc F%[1]s() {}\n"},
	{"one", "// F%[1]s is redirected.\n//go:redirect-from runtime.r%[1]s\nfunc F%[1]s() {}\n"},
	{"one-with-directives", "// F%[1]s has other directives.\n//go:nosplit\n//go:redirect-from   runtime.r%[1]s  \n//go:noinline\nfunc F%[1]s() {}\n"},
	{"two", "// F%[1]s twice.\n//go:redirect-from runtime.r%[1]sa\n// some prose in between\n//go:redirect-from runtime.r%[1]sb\nfunc F%[1]s() {}\n"},
	{"method", "type T%[1]s struct{}\n\n//go:redirect-from runtime.m%[1]s\nfunc (T%[1]s) M%[1]s() {}\n"},
	{"not-doc-blank-line", "//go:redirect-from runtime.notdoc%[1]s\n\nfunc N%[1]s() {}\n"},
	{"on-var", "//go:redirect-from runtime.onvar%[1]s\nvar V%[1]s = 1\n"},
	{"on-type", "//go:redirect-from runtime.ontype%[1]s\ntype Y%[1]s struct{}\n"},
	{"in-body", "func B%[1]s() {\n\t//go:redirect-from runtime.inbody%[1]s\n}\n"},
	{"trailing", "func G%[1]s() {} //go:redirect-from runtime.trailing%[1]s\nfunc H%[1]s() {}\n"},
	{"prose-mention", "// Q%[1]s mentions //go:redirect-from runtime.prose%[1]s in prose.\nfunc Q%[1]s() {}\n"},
}

type vfFileSpec struct {
	Path  string `json:"path"`  // relative, e.g. "a/b/x.go"
	Items []int  `json:"items"` // indices into vfItems
	Pad   int    `json:"pad,omitempty"` // size of a block comment placed between the package clause and the first item
}

type vf20Case struct {
	Files []vfFileSpec `json:"files"`
	Perms [][]int      `json:"perms"` // iteration order per map range executed (nil = identity)
}

func vfRender(fs vfFileSpec, fileNo int) string {
	pkg := filepath.Base(filepath.Dir(fs.Path))
	if pkg == "." || pkg == "" {
		pkg = "kernel"
	}
	var sb strings.Builder
	fmt.Fprintf(&sb, "// Package %s is generated.\npackage %s\n\n", pkg, pkg)
	if fs.Pad >= 8 {
		// "/* " + filler + " */\n\n" is exactly Pad bytes
		sb.WriteString("/* " + strings.Repeat("p", fs.Pad-8) + " */\n\n")
	}
	for i, it := range fs.Items {
		fmt.Fprintf(&sb, vfItems[it].src, fmt.Sprintf("x%d_%d", fileNo, i))
		sb.WriteString("\n")
	}
	return sb.String()
}

func vfWriteTree(root string, files []vfFileSpec) {
	os.RemoveAll(root)
	for i, fs := range files {
		p := filepath.Join(root, fs.Path)
		os.MkdirAll(filepath.Dir(p), 0755)
		if err := ioutil.WriteFile(p, []byte(vfRender(fs, i)), 0644); err != nil {
			panic(err)
		}
	}
}

// vfRefScan is the independent scanner: files in lexical walk order,
// declarations in file order, annotations in doc-comment order.
func vfRefScan(root string) [][2]string {
	var files []string
	filepath.Walk(root, func(p string, info os.FileInfo, err error) error {
		if err == nil && !info.IsDir() && filepath.Ext(p) == ".go" && !strings.HasSuffix(p, "_test.go") {
			files = append(files, p)
		}
		return nil
	})
	var out [][2]string
	fset := token.NewFileSet()
	for _, f := range files {
		af, err := parser.ParseFile(fset, f, nil, parser.ParseComments)
		if err != nil {
			panic(err)
		}
		rel, _ := filepath.Rel(root, filepath.Dir(f))
		pkg := "github.com/ProjectSerenity/firefly/kernel"
		if rel != "." {
			pkg += "/" + filepath.ToSlash(rel)
		}
		for _, d := range af.Decls {
			fd, ok := d.(*ast.FuncDecl)
			if !ok || fd.Doc == nil {
				continue
			}
			for _, c := range fd.Doc.List {
				if strings.HasPrefix(c.Text, "//go:redirect-from") {
					out = append(out, [2]string{strings.TrimSpace(strings.TrimPrefix(c.Text, "//go:redirect-from")), pkg + "." + fd.Name.Name})
				}
			}
		}
	}
	return out
}

func vfRunFind(root string) (out [][2]string, pan interface{}) {
	wd, _ := os.Getwd()
	defer os.Chdir(wd)
	os.Chdir(root)
	defer func() { pan = recover() }()
	ctx := &Context{}
	ctx.FindRedirects()
	for _, r := range ctx.Redirects {
		out = append(out, [2]string{r.SrcSymbol, r.DstSymbol})
	}
	return
}

var vfFactorial = []int{1, 1, 2, 6, 24, 120, 720, 5040, 40320}

// vfNthPerm returns the k-th permutation of 0..n-1 in lexicographic order (k=0: identity).
func vfNthPerm(n, k int) []int {
	elems := make([]int, n)
	for i := range elems {
		elems[i] = i
	}
	out := make([]int, 0, n)
	for i := n; i > 0; i-- {
		f := vfFactorial[i-1]
		j := k / f
		k %= f
		out = append(out, elems[j])
		elems = append(elems[:j], elems[j+1:]...)
	}
	return out
}

// vfExploreTree runs FindRedirects on the tree under every iteration order within the deviation bound.
func vfExploreTree(run *verifrt.Run, root string, files []vfFileSpec, bound int, orders map[string]bool) {
	vfWriteTree(root, files)
	// FindRedirects ends the process on a file it cannot read or parse (log.Fatal): the journal attributes such a
	// death to this tree, and the driver replays the tree alone
	verifrt.JournalJSON(vf20Case{files, nil})
	want := vfRefScan(root)
	baseline := "" // the table of the first execution (canonical iteration order); any deterministic order is acceptable
	first := true
	verifrt.Explore(bound, nil, run.OutOfBudget, func(c *verifrt.Chooser) {
		var perms [][]int
		call := 0
		verifPermChoice = func(n int) []int {
			call++
			if n > 8 {
				panic("verif: map with more than 8 keys; enlarge the factorial table")
			}
			if n <= 1 {
				p := vfNthPerm(n, 0)
				perms = append(perms, p)
				return p
			}
			p := vfNthPerm(n, c.Choose(fmt.Sprintf("range#%d/%dkeys", call, n), vfFactorial[n]))
			perms = append(perms, p)
			return p
		}
		got, pan := vfRunFind(root)
		verifPermChoice = nil
		run.Case()
		cs := vf20Case{files, perms}
		if pan != nil {
			run.Violate("panic", "panic "+verifrt.JSONKey(cs), fmt.Sprintf("FindRedirects panicked: %v", pan), cs)
			return
		}
		gotS := fmt.Sprint(got)
		orders[gotS] = true
		if first {
			first = false
			baseline = gotS
		}
		gs, ws := append([][2]string{}, got...), append([][2]string{}, want...)
		less := func(s [][2]string) func(i, j int) bool {
			return func(i, j int) bool { return s[i][0]+"\x00"+s[i][1] < s[j][0]+"\x00"+s[j][1] }
		}
		sort.Slice(gs, less(gs))
		sort.Slice(ws, less(ws))
		if fmt.Sprint(gs) != fmt.Sprint(ws) {
			run.Violate("wrong-entries", "entries "+verifrt.JSONKey(cs), fmt.Sprintf("tree %s: redirect table %v, the annotations on function declarations are %v", vfTreeDesc(files), got, want), cs)
		} else if gotS != baseline {
			run.Violate("order-not-reproducible", "order "+verifrt.JSONKey(files), fmt.Sprintf("tree %s: with map iteration order %s the table is %v, with the canonical iteration order it is %s: two builds of the same tree can differ", vfTreeDesc(files), c.TraceString(), got, baseline), cs)
		}
	})
}

func vfTreeDesc(files []vfFileSpec) string {
	var parts []string
	for _, f := range files {
		var names []string
		for _, it := range f.Items {
			names = append(names, vfItems[it].name)
		}
		parts = append(parts, f.Path+"{"+strings.Join(names, ",")+"}")
	}
	return strings.Join(parts, " ")
}

func TestVerifC20(t *testing.T) {
	run := verifrt.Start("C20")
	scratch := os.Getenv("VERIF_BUILD")
	if scratch == "" {
		scratch = os.TempDir()
	}
	root := filepath.Join(scratch, fmt.Sprintf("c20-tree-%d", run.Shard))
	defer os.RemoveAll(root)

	var rp vf20Case
	if run.Replaying(&rp) {
		vfWriteTree(root, rp.Files)
		want := vfRefScan(root)
		call := 0
		verifPermChoice = func(n int) []int {
			call++
			if call-1 < len(rp.Perms) && len(rp.Perms[call-1]) == n {
				return rp.Perms[call-1]
			}
			return vfNthPerm(n, 0)
		}
		got, pan := vfRunFind(root)
		verifPermChoice = nil
		run.Case()
		if pan != nil {
			run.Violate("panic", "panic "+verifrt.JSONKey(rp), fmt.Sprint(pan), rp)
		} else {
			verifPermChoice = nil
			base, _ := vfRunFind(root)
			a, b := append([][2]string{}, got...), append([][2]string{}, want...)
			sort.Slice(a, func(i, j int) bool { return a[i][0]+a[i][1] < a[j][0]+a[j][1] })
			sort.Slice(b, func(i, j int) bool { return b[i][0]+b[i][1] < b[j][0]+b[j][1] })
			if fmt.Sprint(a) != fmt.Sprint(b) {
				run.Violate("wrong-entries", "entries "+verifrt.JSONKey(rp), fmt.Sprintf("table %v, annotations %v", got, want), rp)
			} else if fmt.Sprint(got) != fmt.Sprint(base) && len(rp.Perms) == 0 {
				run.Violate("repeat-call-differs", "repeat "+verifrt.JSONKey(rp.Files), fmt.Sprintf("two calls on fresh Contexts over the same tree under the same iteration order: table %v, then %v", got, base), rp)
			} else if fmt.Sprint(got) != fmt.Sprint(base) {
				run.Violate("order-not-reproducible", "order "+verifrt.JSONKey(rp.Files), fmt.Sprintf("table %v under the recorded iteration order, %v under the canonical one", got, base), rp)
			}
		}
		run.Finish(true, "replay", "replay")
		return
	}

	orders := map[string]bool{}
	n := len(vfItems)
	idx := 0
	// one file: every ordered pair of items (and every single item), all iteration orders
	for a := 0; a < n; a++ {
		idx++
		if !run.Mine(idx) {
			continue
		}
		vfExploreTree(run, root, []vfFileSpec{{"one.go", []int{a}, 0}}, -1, orders)
		for b := 0; b < n; b++ {
			vfExploreTree(run, root, []vfFileSpec{{"pkg/two.go", []int{a, b}, 0}}, -1, orders)
			run.Sample(map[string]interface{}{"tree": vfTreeDesc([]vfFileSpec{{"pkg/two.go", []int{a, b}, 0}})})
			// triples: third item from the annotated kinds; iteration orders within 1 deviation (full in thorough)
			thirds := []int{1, 3, 4, 6}
			if run.Thorough() {
				thirds = nil
				for c3 := 0; c3 < n; c3++ {
					thirds = append(thirds, c3) // thorough: every ordered triple of declaration kinds
				}
			}
			for _, c3 := range thirds {
				bound := 1
				if run.Thorough() {
					bound = -1
				}
				vfExploreTree(run, root, []vfFileSpec{{"a/b/three.go", []int{a, b, c3}, 0}}, bound, orders)
			}
		}
		// several files, nested directories, a test file and a non-Go file that must be ignored
		for b := 0; b < n; b++ {
			files := []vfFileSpec{{"top.go", []int{a, 1}, 0}, {"a/inner.go", []int{b}, 0}, {"a/b/deep.go", []int{3, b}, 0}, {"a/inner_test.go", []int{1, 3}, 0}, {"a/notes.txt", []int{1}, 0}}
			vfExploreTree(run, root, files, 2, orders)
		}
	}
	// directory / file names that are prefixes of one another (mm/vmm/ next to mm/vmm.go, cpu/ next to cpu.go, a_b/ next to a.go):
	// the destination's import path is the file's own directory, whatever was walked before it
	if run.Mine(idx + 1) {
		layouts := [][]vfFileSpec{
			{{"mm/vmm/x.go", []int{1}, 0}, {"mm/vmm.go", []int{1, 3}, 0}, {"mm/vmm_amd64.go", []int{4}, 0}},
			{{"cpu/c.go", []int{3}, 0}, {"cpu.go", []int{1}, 0}, {"cpu_amd64.go", []int{2}, 0}},
			{{"a/b/c.go", []int{1}, 0}, {"a/b.go", []int{1}, 0}, {"a.go", []int{1}, 0}, {"a_b/c.go", []int{3}, 0}},
			{{"mm/vmm/x.go", []int{0}, 0}, {"mm/vmm.go", []int{1}, 0}},
			{{"k/kk/kkk/d.go", []int{1}, 0}, {"k/kk/kkk.go", []int{4}, 0}, {"k/kk.go", []int{2}, 0}, {"k.go", []int{1}, 0}, {"kz/e.go", []int{1}, 0}},
		}
		for _, l := range layouts {
			vfExploreTree(run, root, l, -1, orders)
			run.ForceSample(map[string]interface{}{"tree": vfTreeDesc(l)})
		}
	}
	// where in the file the annotation sits: its first byte at every offset from 24 bytes before to 2 bytes after each
	// of the 4 KiB boundaries 1,2,3,4 and 16 (large source files; buffered scanning of file contents)
	{
		base := strings.Index(vfRender(vfFileSpec{"pkg/big.go", []int{1}, 0}, 0), "//go:redirect-from")
		for _, k := range []int{1, 2, 3, 4, 16} {
			idx++
			if !run.Mine(idx) {
				continue
			}
			for d := -24; d <= 2; d++ {
				pad := k*4096 + d - base
				vfExploreTree(run, root, []vfFileSpec{{"pkg/big.go", []int{1}, pad}, {"pkg/z.go", []int{3}, 0}}, 0, orders)
			}
		}
	}
	if run.Shard == 0 {
		// the kernel tree itself: table == independent scanner, and two free runs agree (sampling cross-check)
		repo := os.Getenv("VERIF_REPO")
		if repo == "" {
			repo = "/repo"
		}
		k1, pan := vfRunFind(filepath.Join(repo, "kernel"))
		k2, _ := vfRunFind(filepath.Join(repo, "kernel"))
		kr := vfRefScan(filepath.Join(repo, "kernel"))
		run.Case()
		if pan != nil {
			run.Violate("panic", "kernel-tree", fmt.Sprint(pan), vf20Case{})
		} else if fmt.Sprint(k1) != fmt.Sprint(kr) || fmt.Sprint(k1) != fmt.Sprint(k2) {
			// only the multiset is a verdict here: order under free map iteration is sampling
			a, b := append([][2]string{}, k1...), append([][2]string{}, kr...)
			sort.Slice(a, func(i, j int) bool { return a[i][0] < a[j][0] })
			sort.Slice(b, func(i, j int) bool { return b[i][0] < b[j][0] })
			if fmt.Sprint(a) != fmt.Sprint(b) {
				run.Violate("wrong-entries", "kernel-tree", fmt.Sprintf("kernel tree: table %v, annotations %v", k1, kr), vf20Case{})
			}
		}
		run.Count("kernel_tree_redirects", int64(len(kr)))
	}
	run.Count("distinct_tables", int64(len(orders)))
	for o := range orders {
		run.Distinct(o)
	}
	run.Finish(!run.Capped(), "source trees: every single item and ordered pair of 11 declaration kinds (annotated function, with other directives, two annotations, method, comment detached by a blank line, on a var, on a type, inside a body, trailing comment, prose mention, plain) in one file, triples with 4 annotated kinds (thorough: every ordered triple), 5-file trees with nested directories, a _test.go file and a non-Go file; trees whose directory and file names are prefixes of one another (mm/vmm/ next to mm/vmm.go, cpu/ next to cpu.go); files whose annotation starts at every offset within -24..+2 of the 4 KiB boundaries 1,2,3,4,16; every iteration order of every map-typed range executed (full product for one map; <=2 non-identity orders for multi-file trees; triples <=1 in quick, full in thorough); plus the kernel tree itself",
		"distinct = distinct redirect tables observed; every execution compares the ordered table with an independent go/parser scanner")
}
