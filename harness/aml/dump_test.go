//go:build verif
// +build verif

package aml

import (
	"encoding/json"
	"io/ioutil"
	"os"
	"testing"
)

// TestVerifDump prints the tree the real parser builds for a replay file (debugging aid: VERIF_DUMP=<replay.json>).
func TestVerifDump(t *testing.T) {
	p := os.Getenv("VERIF_DUMP")
	if p == "" {
		t.Skip("VERIF_DUMP not set")
	}
	data, _ := ioutil.ReadFile(p)
	var w struct {
		Replay vf11Replay `json:"replay"`
	}
	if err := json.Unmarshal(data, &w); err != nil {
		t.Fatal(err)
	}
	var payloads [][]byte
	for _, tb := range w.Replay.Tables {
		payloads = append(payloads, vfEncCfg{w.Replay.PkgForce}.list(tb))
	}
	tree, perr := vfParseAll(payloads)
	t.Logf("program: %s\nbytes: %x\nparse: %q", vfProgString(w.Replay.Tables), payloads, perr)
	tree.PrettyPrint(os.Stdout)
}
