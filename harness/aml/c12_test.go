//go:build verif
// +build verif

package aml

// C12 — malformed AML is rejected with an error, never a crash, hang or stray
// pointer. The parser is compiled from a tick/depth-instrumented copy of
// parser.go, obj_tree.go and stream_reader.go (tools/instr-tick -depth), so
// "does not terminate" and "overflows the stack" are deterministic budget
// failures. Every table is placed flush against an inaccessible page.

import (
	"encoding/hex"
	"fmt"
	"io/ioutil"
	"runtime/debug"
	"strings"
	"syscall"
	"testing"
	"unsafe"

	"github.com/ProjectSerenity/firefly/kernel"
	"github.com/ProjectSerenity/firefly/kernel/device/acpi/table"
	"github.com/ProjectSerenity/firefly/kernel/internal/verifrt"
)

type vf12Replay struct {
	Prefix string `json:"first_table,omitempty"` // hex: a valid table loaded before
	Data   string `json:"data"`                  // hex: the table payload under test
}

type vf12Env struct {
	mem   []byte
	pages int
	hdr   int
}

func vf12NewEnv() *vf12Env {
	pages := 4
	m, err := syscall.Mmap(-1, 0, (pages+1)*4096, syscall.PROT_READ|syscall.PROT_WRITE, syscall.MAP_ANON|syscall.MAP_PRIVATE)
	if err != nil {
		panic(err)
	}
	if err := syscall.Mprotect(m[pages*4096:], syscall.PROT_NONE); err != nil {
		panic(err)
	}
	return &vf12Env{mem: m, pages: pages, hdr: int(unsafe.Sizeof(table.SDTHeader{}))}
}

// place builds header+payload ending exactly at the guard page.
func (e *vf12Env) place(data []byte) (*table.SDTHeader, []byte) {
	n := e.hdr + len(data)
	off := e.pages*4096 - n
	stream := e.mem[off : off+n : off+n]
	for i := range stream[:e.hdr] {
		stream[i] = 0
	}
	copy(stream[e.hdr:], data)
	h := (*table.SDTHeader)(unsafe.Pointer(&stream[0]))
	h.Length = uint32(n)
	return h, stream
}

// vfTreeProblem checks the C13 well-formedness invariants on whatever tree the parser left behind.
func vfTreeProblem(t *ObjectTree) string {
	n := uint32(len(t.objPool))
	valid := func(i uint32) bool { return i == InvalidIndex || i < n }
	reach := make([]bool, n)
	for _, o := range t.objPool {
		if o.opcode == pOpIntFreedObject {
			continue
		}
		if !valid(o.parentIndex) || !valid(o.firstArgIndex) || !valid(o.lastArgIndex) || !valid(o.prevSiblingIndex) || !valid(o.nextSiblingIndex) {
			return fmt.Sprintf("object %d has a link outside the pool", o.index)
		}
		cnt := uint32(0)
		prev := InvalidIndex
		for i := o.firstArgIndex; i != InvalidIndex; i = t.objPool[i].nextSiblingIndex {
			c := t.objPool[i]
			if c.opcode == pOpIntFreedObject {
				return fmt.Sprintf("freed object %d is reachable as a child of %d", i, o.index)
			}
			if c.parentIndex != o.index {
				return fmt.Sprintf("object %d is in the child list of %d but its parent link says %d", i, o.index, int32(c.parentIndex))
			}
			if c.prevSiblingIndex != prev {
				return fmt.Sprintf("object %d: previous-sibling link %d, the child list says %d", i, int32(c.prevSiblingIndex), int32(prev))
			}
			if !valid(c.nextSiblingIndex) {
				return fmt.Sprintf("object %d has a sibling link outside the pool", i)
			}
			prev = i
			if cnt++; cnt > n {
				return fmt.Sprintf("the child list of object %d is cyclic", o.index)
			}
		}
		if o.lastArgIndex != prev {
			return fmt.Sprintf("object %d: last-child link %d, the child list ends at %d", o.index, int32(o.lastArgIndex), int32(prev))
		}
	}
	// the part reachable from the root must be a tree
	var walk func(i uint32, depth int) string
	walk = func(i uint32, depth int) string {
		if reach[i] {
			return fmt.Sprintf("object %d is reachable twice (not a tree)", i)
		}
		reach[i] = true
		if depth > int(n)+1 {
			return "parent/child links are cyclic"
		}
		for c := t.objPool[i].firstArgIndex; c != InvalidIndex; c = t.objPool[c].nextSiblingIndex {
			if msg := walk(c, depth+1); msg != "" {
				return msg
			}
		}
		return ""
	}
	if n > 0 {
		return walk(0, 0)
	}
	return ""
}

type vf12 struct {
	run      *verifrt.Run
	env      *vf12Env
	maxSteps int64
	maxDepth int
	outcomes map[string]int64
}

// parse runs one input through the real parser with every oracle.
func (c *vf12) parse(prefix, data []byte) {
	run := c.run
	run.Case()
	rp := vf12Replay{hex.EncodeToString(prefix), hex.EncodeToString(data)}
	verifrt.JournalJSON(rp)
	report := func(class, msg string) {
		run.Violate(class, class+" "+rp.Prefix+"|"+rp.Data, fmt.Sprintf("table %s%s: %s", map[bool]string{true: "(after a first valid table " + rp.Prefix + ") ", false: ""}[len(prefix) > 0], rp.Data, msg), rp)
	}
	tree := NewObjectTree()
	tree.CreateDefaultScopes(0)
	p := NewParser(ioutil.Discard, tree)
	handle := uint8(1)
	var keep []byte
	if len(prefix) > 0 {
		keep = make([]byte, c.env.hdr+len(prefix))
		copy(keep[c.env.hdr:], prefix)
		h := (*table.SDTHeader)(unsafe.Pointer(&keep[0]))
		h.Length = uint32(len(keep))
		if err := p.ParseAML(handle, "PRE", h); err != nil {
			panic("verif: the first (valid) table does not parse: " + rp.Prefix)
		}
		handle++
	}
	header, stream := c.env.place(data)
	stepBudget := int64(2000 + 400*len(data))
	depthBudget := 64 + 8*len(data)
	var pan interface{}
	var err *kernel.Error
	verifrt.SetBudget(stepBudget, depthBudget)
	func() {
		defer func() { pan = recover() }()
		err = p.ParseAML(handle, "T", header)
	}()
	steps, depth := verifrt.Steps(), verifrt.PeakDepth()
	verifrt.SetBudget(0, 0)
	if steps > c.maxSteps {
		c.maxSteps = steps
	}
	if depth > c.maxDepth {
		c.maxDepth = depth
	}
	if be, ok := pan.(*verifrt.BudgetExceeded); ok {
		if be.Kind == "depth" {
			report("unbounded-recursion", fmt.Sprintf("parsing recursed deeper than %d frames for a %d-byte table (it would overflow the stack)", depthBudget, len(data)))
		} else {
			report("does-not-terminate", fmt.Sprintf("parsing was still running after %d steps for a %d-byte table (budget 2000 + 400 per byte)", be.Steps, len(data)))
		}
		c.outcomes["budget"]++
		return
	}
	if pan != nil {
		class := "panic"
		if strings.Contains(fmt.Sprint(pan), "fault") || strings.Contains(fmt.Sprint(pan), "nil pointer") {
			class = "read-outside-table"
		}
		report(class, fmt.Sprintf("parser panicked: %v", pan))
		c.outcomes["panic"]++
		return
	}
	if err != nil && err != errParsingAML {
		report("wrong-error", "parser returned "+err.Message)
	}
	// every byte slice the tree refers to lies inside a table
	base := uintptr(unsafe.Pointer(&stream[0]))
	end := base + uintptr(len(stream))
	var kb, ke uintptr
	if keep != nil {
		kb = uintptr(unsafe.Pointer(&keep[0]))
		ke = kb + uintptr(len(keep))
	}
	for _, o := range tree.objPool {
		if o.opcode == pOpIntFreedObject {
			continue
		}
		if b, ok := o.value.([]byte); ok && len(b) > 0 {
			ptr := uintptr(unsafe.Pointer(&b[0]))
			in := (ptr >= base && ptr+uintptr(len(b)) <= end) || (keep != nil && ptr >= kb && ptr+uintptr(len(b)) <= ke)
			if !in {
				report("stray-pointer", fmt.Sprintf("%s object %d refers to %d bytes starting at table offset %d: beyond the %d-byte table (parse result: %v)", pOpcodeName(o.opcode), o.index, len(b), int64(ptr)-int64(base), len(stream), err == nil))
				return
			}
		}
	}
	if msg := vfTreeProblem(tree); msg != "" {
		report("malformed-tree", msg)
		return
	}
	if err == nil {
		var pp interface{}
		verifrt.SetBudget(int64(100000+1000*len(data)), 4096)
		func() {
			defer func() { pp = recover() }()
			tree.PrettyPrint(ioutil.Discard)
		}()
		verifrt.SetBudget(0, 0)
		if pp != nil {
			report("print-panic", fmt.Sprintf("the tree of a successfully parsed table cannot be printed: %v", pp))
			return
		}
		c.outcomes["ok"]++
	} else {
		c.outcomes["rejected"]++
	}
}

func vf12Seeds() [][]byte {
	ret := func(n *vfN) *vfN { return &vfN{K: "Return", C: []*vfN{n}} }
	asts := [][]*vfN{
		{{K: "Scope", Name: "\\_SB_", C: []*vfN{{K: "Device", Name: "DEV0", C: []*vfN{{K: "Name", Name: "FOO0", C: []*vfN{vfI(0x12)}}}}}}},
		{{K: "Method", Name: "M000", I: 0, C: []*vfN{ret(&vfN{K: "Call", Name: "M001", C: []*vfN{vfI(1), vfI(2)}})}}, {K: "Method", Name: "M001", I: 2, C: []*vfN{ret(&vfN{K: "Arg", I: 0})}}},
		{{K: "OpRegion", Name: "REG0", C: []*vfN{vfI(0x3000), vfI(4)}}, {K: "Field", Name: "REG0", I: 1, C: []*vfN{{K: "F", S: "FLD0", I: 8}, {K: "R", I: 4}, {K: "F", S: "FLD1", I: 4}}}},
		{{K: "Name", Name: "BUF0", C: []*vfN{{K: "Buf", S: "ab"}}}, {K: "Name", Name: "PKG0", C: []*vfN{{K: "Pkg", C: []*vfN{vfI(1), {K: "Str", S: "x"}}}}}},
		{{K: "Method", Name: "M000", I: 1, C: []*vfN{{K: "While", C: []*vfN{{K: "Arg", I: 0}, {K: "Store", C: []*vfN{vfI(5), {K: "Local", I: 0}}}}}, {K: "If", C: []*vfN{{K: "Local", I: 0}, ret(vfI(3))}}, {K: "Else", C: []*vfN{ret(vfI(4))}}}}},
		{{K: "Scope", Name: "\\_SB_", C: []*vfN{{K: "ThermalZone", Name: "^THRM", C: []*vfN{{K: "Name", Name: "DEF0", C: []*vfN{{K: "Ones"}}}}}}}, {K: "Scope", Name: "\\THRM", C: []*vfN{{K: "Name", Name: "DEF1", C: []*vfN{{K: "Zero"}}}}}},
		{{K: "Device", Name: "DEV0", C: []*vfN{{K: "Mutex", Name: "MTX0", I: 1}, {K: "Event", Name: "EVT0"}, {K: "Processor", Name: "CPU0"}, {K: "PowerRes", Name: "PWR0"}}}},
		{{K: "Name", Name: "PKG0", C: []*vfN{{K: "Pkg", C: []*vfN{vfI(1), vfI(2)}}}}, {K: "Method", Name: "M000", I: 0, C: []*vfN{ret(&vfN{K: "Call", Name: "M001", C: []*vfN{{K: "Op", S: "83", C: []*vfN{{K: "Op", S: "88", C: []*vfN{{K: "Call", Name: "PKG0"}, vfI(1), {K: "NullTarget"}}}}}, vfI(7)}})}}, {K: "Method", Name: "M001", I: 2, C: []*vfN{ret(&vfN{K: "Arg", I: 0})}}},
	}
	var seeds [][]byte
	for _, s := range asts {
		seeds = append(seeds, vfEncCfg{0}.list(s))
	}
	// a Field with a Connection(Buffer) element and an access field (hand-encoded)
	body := []byte{'R', 'E', 'G', '0', 0x01, 0x02, 0x11, 0x05, 0x0a, 0x02, 0xaa, 0xbb, 'F', 'L', 'D', '0', 0x08, 0x01, 0x03, 0x00, 'F', 'L', 'D', '1', 0x04}
	seeds = append(seeds, append([]byte{0x5b, 0x81, byte(len(body) + 1)}, body...))
	// Fields whose Connection(Buffer) is the very last element of the table (nothing behind the buffer package),
	// with byte-, word- and dword-sized buffer size constants
	for _, size := range [][]byte{{0x0a, 0x02}, {0x0b, 0x02, 0x00}, {0x0c, 0x02, 0x00, 0x00, 0x00}} {
		buf := append(append([]byte{}, size...), 0xaa, 0xbb)
		conn := append([]byte{0x02, 0x11, byte(len(buf) + 1)}, buf...)
		b2 := append([]byte{'R', 'E', 'G', '0', 0x01, 'F', 'L', 'D', '0', 0x08}, conn...)
		seeds = append(seeds, append([]byte{0x5b, 0x81, byte(len(b2) + 1)}, b2...))
	}
	return seeds
}

func vf12Alphabet(full bool) []byte {
	var alpha []byte
	if full {
		for b := 0; b < 256; b++ {
			if opcodeMap[b] != 0xff || b == 0x5b || b == '\\' || b == '^' || b == 'A' || b == '_' || b == 0x2e || b == 0x2f || b == 0x40 || b == 0x03 || b == 0x80 || b == 0xc0 {
				alpha = append(alpha, byte(b))
			}
		}
		return alpha
	}
	// one representative per argument shape of the opcode table + name/length bytes
	return []byte{0x00, 0x01, 0x03, 0x06, 0x08, 0x0a, 0x0d, 0x10, 0x11, 0x12, 0x14, 0x2e, 0x2f, 0x40, 0x5b, 0x5c, 0x5e, 0x41, 0x5f, 0x60, 0x70, 0x72, 0x80, 0x81, 0x82, 0xa0, 0xa2, 0xa4}
}

func TestVerifC12(t *testing.T) {
	run := verifrt.Start("C12")
	debug.SetPanicOnFault(true)
	debug.SetMaxStack(256 << 20)
	c := &vf12{run: run, env: vf12NewEnv(), outcomes: map[string]int64{}}

	var rp vf12Replay
	if run.Replaying(&rp) {
		pre, _ := hex.DecodeString(rp.Prefix)
		data, _ := hex.DecodeString(rp.Data)
		c.parse(pre, data)
		run.Finish(true, "replay", "replay")
		return
	}
	complete := true
	stop := func() bool {
		if run.OutOfBudget() {
			complete = false
			return true
		}
		return false
	}
	// (1) all byte strings of length <= 3 over the full alphabet (thorough: also <= 5 over the reduced alphabet)
	full := vf12Alphabet(true)
	var enum func(alpha []byte, cur []byte, maxLen int, top bool)
	topIdx := 0
	enum = func(alpha []byte, cur []byte, maxLen int, top bool) {
		if len(cur) > 0 {
			c.parse(nil, cur)
		}
		if len(cur) == maxLen || stop() {
			return
		}
		for _, b := range alpha {
			if top {
				topIdx++
				if !run.Mine(topIdx) {
					continue
				}
			}
			enum(alpha, append(cur, b), maxLen, false)
		}
	}
	enum(full, nil, 3, true)
	if run.Thorough() {
		enum(vf12Alphabet(false), nil, 5, true)
	} else {
		enum(vf12Alphabet(false), nil, 4, true)
	}
	if run.Shard == 0 {
		c.parse(nil, nil) // the empty table
	}
	// (2)+(3) single-point mutations and splices of well-formed seeds, alone and after a first valid table
	seeds := vf12Seeds()
	first := vfEncCfg{0}.list([]*vfN{{K: "Device", Name: "DEV0", C: []*vfN{{K: "Method", Name: "M001", I: 1, C: []*vfN{{K: "Return", C: []*vfN{{K: "Arg", I: 0}}}}}}}})
	lens := []byte{0, 1, 0x3f, 0x40, 0xff}
	idx := 0
	for si, s := range seeds {
		for _, pre := range [][]byte{nil, first} {
			idx++
			if !run.Mine(idx) || stop() {
				continue
			}
			c.parse(pre, s)
			for i := 0; i < len(s); i++ {
				c.parse(pre, s[:i]) // every truncation
			}
			for i := 0; i < len(s); i++ {
				for bit := 0; bit < 8; bit++ { // every single-bit flip
					m := append([]byte(nil), s...)
					m[i] ^= 1 << uint(bit)
					c.parse(pre, m)
				}
				for _, a := range full { // every single-byte substitution from the alphabet
					m := append([]byte(nil), s...)
					m[i] = a
					c.parse(pre, m)
				}
				for _, l := range lens { // length-field style corruptions at every offset, one and two bytes wide
					m := append([]byte(nil), s...)
					m[i] = l
					c.parse(pre, m)
					if i+1 < len(s) {
						m2 := append([]byte(nil), s...)
						m2[i], m2[i+1] = 0x40|l&0xf, l
						c.parse(pre, m2)
					}
				}
				// insertion / deletion of one byte
				c.parse(pre, append(append(append([]byte(nil), s[:i]...), 0x5b), s[i:]...))
				c.parse(pre, append(append([]byte(nil), s[:i]...), s[i+1:]...))
			}
			if pre == nil {
				for _, b := range seeds { // every splice a[:i] + b[j:]
					for i := 0; i <= len(s); i++ {
						for j := 0; j <= len(b); j++ {
							if !run.Thorough() && (i+j+si)%3 != 0 {
								continue
							}
							c.parse(nil, append(append([]byte(nil), s[:i]...), b[j:]...))
						}
					}
				}
			}
		}
	}
	// (2b) Field Connection(Buffer) elements: every declared size x initialiser length x what follows the buffer package
	if run.Shard == 0 {
		for _, declared := range []uint32{0, 1, 2, 3, 4, 5, 7, 8, 0x3f, 0x40, 0xff, 0x100, 0xffff, 0x10000, 0xffffffff} {
			for initLen := 0; initLen <= 4; initLen++ {
				for _, tail := range [][]byte{nil, {'F', 'L', 'D', '1', 0x04}, {0x00, 0x08}} {
					for _, pre := range [][]byte{nil, first} {
						var size []byte
						switch {
						case declared < 0x100:
							size = []byte{0x0a, byte(declared)}
						case declared < 0x10000:
							size = []byte{0x0b, byte(declared), byte(declared >> 8)}
						default:
							size = []byte{0x0c, byte(declared), byte(declared >> 8), byte(declared >> 16), byte(declared >> 24)}
						}
						buf := append(append([]byte{}, size...), make([]byte, initLen)...)
						conn := append([]byte{0x02, 0x11, byte(len(buf) + 1)}, buf...)
						b2 := append(append([]byte{'R', 'E', 'G', '0', 0x01, 'F', 'L', 'D', '0', 0x08}, conn...), tail...)
						c.parse(pre, append([]byte{0x5b, 0x81, byte(len(b2) + 1)}, b2...))
					}
				}
			}
		}
	}
	// (4) every generated program the reference namespace rejects as ill-formed, with widened name forms
	mk := func(kind, name string) *vfN {
		switch kind {
		case "Name":
			return &vfN{K: "Name", Name: name, C: []*vfN{vfI(1)}}
		case "Method":
			return &vfN{K: "Method", Name: name, I: 1, C: []*vfN{{K: "Return", C: []*vfN{{K: "Arg", I: 0}}}}}
		case "Mutex":
			return &vfN{K: "Mutex", Name: name, I: 1}
		case "OpRegion":
			return &vfN{K: "OpRegion", Name: name, C: []*vfN{vfI(0x30), vfI(4)}}
		case "Scope":
			return &vfN{K: "Scope", Name: name, C: []*vfN{{K: "Name", Name: "ZZZ0", C: []*vfN{vfI(1)}}}}
		default:
			return &vfN{K: kind, Name: name, C: []*vfN{{K: "Name", Name: "ZZZ0", C: []*vfN{vfI(1)}}}}
		}
	}
	kinds := []string{"Name", "Method", "Mutex", "OpRegion", "Device", "ThermalZone", "Processor", "PowerRes", "Scope"}
	names := []string{"FOO0", "^FOO0", "^^FOO0", "^^^FOO0", "\\FOO0", "\\", "^", "", "FOO0.FOO0", "DEV0.FOO0", "FOO0.BAR0", "\\FOO0.FOO0", "^FOO0.FOO0", "\\DEV0.DEV0", "DEV0", "DEV0.DEV0", "FOO0.FOO0.FOO0", "\\_SB_.FOO0", "_SB_.FOO0", "_SB_", "ZZZ0", "DEV0.ZZZ0"}
	wraps := vfWraps()[:8]
	for _, w := range wraps {
		for _, k := range kinds {
			idx++
			if !run.Mine(idx) || stop() {
				continue
			}
			for _, nm := range names {
				c.parse(nil, vfEncCfg{0}.list(w.f([]*vfN{mk(k, nm)})))
				for _, k2 := range kinds {
					for _, nm2 := range []string{"FOO0", "BAR0", "^FOO0", "FOO0.FOO0", "DEV0"} {
						c.parse(nil, vfEncCfg{0}.list(w.f([]*vfN{mk(k, nm), mk(k2, nm2)})))
					}
				}
			}
		}
	}
	for k, v := range c.outcomes {
		run.Count("outcome_"+k, v)
		run.Distinct("outcome " + k)
	}
	run.Extra["max_steps_observed"] = c.maxSteps
	run.Extra["max_depth_observed"] = c.maxDepth
	run.ForceSample(map[string]string{"tier": "byte strings", "data": "5b820a2e4546474845464748"})
	run.ForceSample(map[string]string{"tier": "mutation of a seed", "seed": hex.EncodeToString(seeds[0])})
	maxLen := 4
	if run.Thorough() {
		maxLen = 5
	}
	run.Finish(complete, fmt.Sprintf("(1) every byte string of length <=3 over a %d-byte alphabet (every valid opcode byte, ext prefix, name/prefix/length bytes) and of length <=%d over a 28-byte alphabet; (2) %d well-formed seeds: every truncation, single-bit flip, byte substitution from the alphabet, length-style corruption (one and two bytes) at every offset, one-byte insertion/deletion, every splice a[:i]+b[j:] (a third of the cut pairs in quick); (2b) Field Connection(Buffer) elements: 15 declared sizes x initialiser length 0..4 x {last element, followed by a named / reserved field}; (3) the same after a first valid table; (4) generated ill-formed programs: 9 constructs x 22 name forms (self-referential, dangling, over-long prefixes) x 8 containers, alone and followed by a second construct", len(full), maxLen, len(seeds)),
		"each input is parsed by the instrumented real parser against a guard page; oracles: no panic/fault, step and depth budgets, error kind, every byte slice inside the table, tree invariants, printable on success; distinct = outcome class")
}
