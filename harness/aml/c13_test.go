//go:build verif
// +build verif

package aml

// C13 — namespace tree stays well-formed; path lookup follows the ACPI search
// rules. Explicit-state BFS over the real ObjectTree surgery operations with a
// reference tree (children as Go slices); in every discovered state every
// lookup expression of the alphabet is resolved from every live scope and
// compared with a reference resolver written from the statement.

import (
	"reflect"
	"encoding/hex"
	"fmt"
	"strconv"
	"strings"
	"testing"

	"github.com/ProjectSerenity/firefly/kernel/internal/verifrt"
)

type vfRNode struct {
	name     [4]byte
	opcode   uint16
	parent   int
	children []int
	freed    bool
}

type vfRTree struct {
	nodes []vfRNode // freed slots are marked in place; which of them is reused next is the implementation's choice
}

func (r *vfRTree) clone() *vfRTree {
	c := &vfRTree{nodes: make([]vfRNode, len(r.nodes))}
	for i, n := range r.nodes {
		c.nodes[i] = n
		c.nodes[i].children = append([]int(nil), n.children...)
	}
	return c
}

type vfTState struct {
	tree *ObjectTree
	ref  *vfRTree
}

// vfRebuild builds a fresh real tree and reference by replaying an operation history (no copy of the real structure
// is ever made: a copy would have to know every private field).
func vfRebuild(hist []string) *vfTState {
	s := vfTreeInit()
	for _, op := range hist {
		if msg := vfTreeApply(s, op); msg != "" {
			panic("verif: a history that was accepted before is rejected on replay: " + msg)
		}
	}
	return s
}

// key is the canonical form of the real structure: every field of the tree and of every pooled object, whatever they
// are called (fields added by a refactoring - cursors, counters - are part of the state automatically).
func (s *vfTState) key() string {
	var sb strings.Builder
	tv := reflect.ValueOf(s.tree).Elem()
	for i := 0; i < tv.NumField(); i++ {
		f := tv.Field(i)
		if f.Kind() == reflect.Slice && f.Type().Elem().Kind() == reflect.Ptr {
			for j := 0; j < f.Len(); j++ {
				fmt.Fprintf(&sb, "|%+v", f.Index(j).Elem())
			}
			continue
		}
		fmt.Fprintf(&sb, "#%s=%v", tv.Type().Field(i).Name, f)
	}
	return sb.String()
}

func vfIdx(i int) uint32 {
	if i < 0 {
		return InvalidIndex
	}
	return uint32(i)
}

// vfCheckLinks compares the real pool with the reference tree.
func vfCheckLinks(s *vfTState) string {
	t, r := s.tree, s.ref
	if len(t.objPool) != len(r.nodes) {
		return fmt.Sprintf("pool has %d slots, reference %d (a freed slot was not reused before the pool grew, or the pool shrank)", len(t.objPool), len(r.nodes))
	}
	for i, n := range r.nodes {
		o := t.objPool[i]
		if o.index != uint32(i) {
			return fmt.Sprintf("slot %d carries index %d", i, o.index)
		}
		if n.freed {
			if t.ObjectAt(uint32(i)) != nil {
				return fmt.Sprintf("freed object %d is reachable through ObjectAt", i)
			}
			continue
		}
		if t.ObjectAt(uint32(i)) != o {
			return fmt.Sprintf("live object %d is not reachable through ObjectAt", i)
		}
		if o.parentIndex != vfIdx(n.parent) {
			return fmt.Sprintf("object %d has parent %d, reference %d", i, int32(o.parentIndex), n.parent)
		}
		first, last := -1, -1
		if len(n.children) > 0 {
			first, last = n.children[0], n.children[len(n.children)-1]
		}
		if o.firstArgIndex != vfIdx(first) || o.lastArgIndex != vfIdx(last) {
			return fmt.Sprintf("object %d first/last child %d/%d, reference %d/%d", i, int32(o.firstArgIndex), int32(o.lastArgIndex), first, last)
		}
		for ci, c := range n.children {
			co := t.objPool[c]
			if r.nodes[c].freed || t.ObjectAt(uint32(c)) == nil {
				return fmt.Sprintf("freed object %d reachable as child of %d", c, i)
			}
			prev, next := -1, -1
			if ci > 0 {
				prev = n.children[ci-1]
			}
			if ci < len(n.children)-1 {
				next = n.children[ci+1]
			}
			if co.prevSiblingIndex != vfIdx(prev) || co.nextSiblingIndex != vfIdx(next) {
				return fmt.Sprintf("object %d (child %d of %d) prev/next %d/%d, reference %d/%d", c, ci, i, int32(co.prevSiblingIndex), int32(co.nextSiblingIndex), prev, next)
			}
			if co.parentIndex != uint32(i) {
				return fmt.Sprintf("object %d is in the child list of %d but its parent link says %d", c, i, int32(co.parentIndex))
			}
			if a := t.ArgAt(o, uint32(ci)); a == nil || a.index != uint32(c) {
				return fmt.Sprintf("ArgAt(%d,%d) disagrees with the reference", i, ci)
			}
		}
		if uint32(len(n.children)) != t.NumArgs(o) {
			return fmt.Sprintf("NumArgs(%d)=%d, reference %d", i, t.NumArgs(o), len(n.children))
		}
		if t.ArgAt(o, uint32(len(n.children))) != nil {
			return fmt.Sprintf("ArgAt(%d,%d) beyond the child list is not nil", i, len(n.children))
		}
	}
	return ""
}

// ---- reference resolver ("children of a node are its scope")

func (r *vfRTree) childNamed(scope int, seg []byte) int {
	for _, c := range r.nodes[scope].children {
		if string(r.nodes[c].name[:]) == string(seg) {
			return c
		}
	}
	return -1
}

func vfIsLead(b byte) bool { return b == '_' || (b >= 'A' && b <= 'Z') }

func (r *vfRTree) relative(scope int, expr []byte) int {
	i := 0
	for i < len(expr) {
		for i < len(expr) && !vfIsLead(expr[i]) {
			i++ // embedded dual/multi-name prefix bytes
		}
		if len(expr)-i < 4 {
			return -1
		}
		scope = r.childNamed(scope, expr[i:i+4])
		if scope < 0 {
			return -1
		}
		i += 4
	}
	return scope
}

func (r *vfRTree) find(scope int, expr []byte) int {
	if len(expr) == 0 {
		return -1
	}
	switch {
	case expr[0] == '\\':
		if len(expr) == 1 {
			return 0
		}
		return r.relative(0, expr[1:])
	case expr[0] == '^':
		i := 0
		for i < len(expr) && expr[i] == '^' {
			scope = r.nodes[scope].parent
			if scope < 0 {
				return -1
			}
			i++
		}
		if i == len(expr) {
			return scope
		}
		return r.relative(scope, expr[i:])
	case len(expr) > 4:
		return r.relative(scope, expr)
	case len(expr) == 4:
		for s := scope; s >= 0; s = r.nodes[s].parent {
			if c := r.childNamed(s, expr); c >= 0 {
				return c
			}
		}
	}
	return -1
}

func (r *vfRTree) closestNamedAncestor(i int) int {
	for a := r.nodes[i].parent; a >= 0; a = r.nodes[a].parent {
		if r.nodes[a].opcode == pOpScope {
			return -1
		}
		if pOpcodeTable[pOpcodeTableIndex(r.nodes[a].opcode, true)].flags&pOpFlagNamed != 0 {
			return a
		}
	}
	return -1
}

func vfLookupExprs() [][]byte {
	var exprs [][]byte
	bodies := []string{"", "AAAA", "BBBB", "CCCC", "AAAABBBB", "AAAAAAAA", "BBBBAAAA", "AAAACCCC", "AAAABBBBAAAA", "AAAAAAAAAAAA",
		"\x2eAAAABBBB", "\x2eAAAAAAAA", "\x2f\x03AAAABBBBAAAA", "\x2f\x02AAAAAAAA", "AAAA\x2eBBBB",
		"A", "AB", "ABC", "AAAAB", "AAAABB", "AAAABBB", "\x2eAAAA", "\x2e", "\x2f\x02AAAA", "AAAA^BBBB", "AAAA\\"}
	// too-short names that are proper prefixes of names that exist, alone, behind embedded prefix bytes and as the last segment
	for _, t := range []string{"AA", "AAA", "B", "BB", "BBB"} {
		bodies = append(bodies, t, "\x2e"+t, "\x2f\x02"+t, "\x2e\x2e"+t, "AAAA"+t, "AAAA\x2e"+t, "\x2eAAAA"+t, "\x2f\x02AAAA"+t, "BBBB"+t, "AAAAAAAA"+t)
	}
	bodies = append(bodies, "\x2e\x2e\x2e\x2e", "AAAA\x2e", "AAAA\x2f\x02", "\x2fAAA", "\x00AAA", "\x00AAAA")
	for _, pre := range []string{"", "\\", "^", "^^", "^^^^"} {
		for _, b := range bodies {
			exprs = append(exprs, []byte(pre+b))
		}
	}
	return exprs
}

// ---- operations

type vfTreeReplay struct {
	Ops    []string `json:"ops"`
	Scope  int      `json:"scope"`   // lookup scope (-1: tree-surgery violation)
	Expr   string   `json:"expr"`    // hex
	MaxObj int      `json:"max_obj"`
}

var vfTreeNames = map[string][4]byte{"A": {'A', 'A', 'A', 'A'}, "B": {'B', 'B', 'B', 'B'}}

func vfTreeOps(r *vfRTree, maxObjs int) []string {
	var ops []string
	live := 0
	for _, n := range r.nodes {
		if !n.freed {
			live++
		}
	}
	if live-1 < maxObjs {
		ops = append(ops, "new:A", "new:B", "new:-", "new:S")
	}
	isAncestor := func(a, b int) bool {
		for x := b; x >= 0; x = r.nodes[x].parent {
			if x == a {
				return true
			}
		}
		return false
	}
	for ci, cn := range r.nodes {
		if cn.freed || ci == 0 {
			continue
		}
		if cn.parent < 0 {
			for pi, pn := range r.nodes {
				if pn.freed || isAncestor(ci, pi) {
					continue
				}
				ops = append(ops, fmt.Sprintf("app:%d:%d", pi, ci))
				for _, sib := range pn.children {
					ops = append(ops, fmt.Sprintf("aft:%d:%d:%d", pi, ci, sib))
				}
			}
		} else {
			ops = append(ops, fmt.Sprintf("det:%d", ci))
		}
		if len(cn.children) == 0 {
			ops = append(ops, fmt.Sprintf("free:%d", ci))
		}
	}
	return ops
}

func vfRemove(s []int, v int) []int {
	var out []int
	for _, c := range s {
		if c != v {
			out = append(out, c)
		}
	}
	return out
}

// vfTreeApply applies op to the real tree and the reference.
func vfTreeApply(s *vfTState, op string) string {
	f := strings.Split(op, ":")
	atoi := func(x string) int { v, _ := strconv.Atoi(x); return v }
	switch f[0] {
	case "new":
		var o *Object
		var name [4]byte
		opcode := uint16(pOpDevice)
		switch f[1] {
		case "-":
			opcode = pOpIf
			o = s.tree.newObject(opcode, 0)
			o.name = [4]byte{} // a recycled slot keeps its old name; unnamed objects are created by the parser the same way
		case "S":
			opcode = pOpScope
			name = [4]byte{'B', 'B', 'B', 'B'}
			o = s.tree.newNamedObject(opcode, 0, name)
		default:
			name = vfTreeNames[f[1]]
			o = s.tree.newNamedObject(opcode, 0, name)
		}
		anyFreed := false
		for _, n := range s.ref.nodes {
			anyFreed = anyFreed || n.freed
		}
		switch i := int(o.index); {
		case anyFreed && (i >= len(s.ref.nodes) || !s.ref.nodes[i].freed):
			return fmt.Sprintf("newObject returned slot %d although freed slots exist (freed slots are reused before the pool grows, and never a live one)", i)
		case anyFreed:
			s.ref.nodes[i] = vfRNode{name: name, opcode: opcode, parent: -1}
		case i != len(s.ref.nodes):
			return fmt.Sprintf("newObject returned slot %d, expected new slot %d", i, len(s.ref.nodes))
		default:
			s.ref.nodes = append(s.ref.nodes, vfRNode{name: name, opcode: opcode, parent: -1})
		}
		if o.parentIndex != InvalidIndex || o.firstArgIndex != InvalidIndex || o.lastArgIndex != InvalidIndex || o.prevSiblingIndex != InvalidIndex || o.nextSiblingIndex != InvalidIndex || o.value != nil {
			return "newObject returned an object with stale links"
		}
	case "app":
		pi, ci := atoi(f[1]), atoi(f[2])
		s.tree.append(s.tree.ObjectAt(uint32(pi)), s.tree.ObjectAt(uint32(ci)))
		s.ref.nodes[pi].children = append(s.ref.nodes[pi].children, ci)
		s.ref.nodes[ci].parent = pi
	case "aft":
		pi, ci, sib := atoi(f[1]), atoi(f[2]), atoi(f[3])
		s.tree.appendAfter(s.tree.ObjectAt(uint32(pi)), s.tree.ObjectAt(uint32(ci)), s.tree.ObjectAt(uint32(sib)))
		ch := s.ref.nodes[pi].children
		var nch []int
		for _, c := range ch {
			nch = append(nch, c)
			if c == sib {
				nch = append(nch, ci)
			}
		}
		s.ref.nodes[pi].children = nch
		s.ref.nodes[ci].parent = pi
	case "det":
		ci := atoi(f[1])
		p := s.ref.nodes[ci].parent
		s.tree.detach(s.tree.ObjectAt(uint32(p)), s.tree.ObjectAt(uint32(ci)))
		s.ref.nodes[p].children = vfRemove(s.ref.nodes[p].children, ci)
		s.ref.nodes[ci].parent = -1
	case "free":
		ci := atoi(f[1])
		s.tree.free(s.tree.ObjectAt(uint32(ci)))
		if p := s.ref.nodes[ci].parent; p >= 0 {
			s.ref.nodes[p].children = vfRemove(s.ref.nodes[p].children, ci)
		}
		s.ref.nodes[ci] = vfRNode{freed: true, parent: -1}
	default:
		panic("unknown op " + op)
	}
	return ""
}

func vfTreeInit() *vfTState {
	s := &vfTState{tree: NewObjectTree(), ref: &vfRTree{}}
	s.tree.newNamedObject(pOpIntScopeBlock, 0, [4]byte{'\\'})
	s.ref.nodes = append(s.ref.nodes, vfRNode{name: [4]byte{'\\'}, opcode: pOpIntScopeBlock, parent: -1})
	return s
}

// vfLookups checks every expression from every live scope of s.
func vfLookups(run *verifrt.Run, s *vfTState, exprs [][]byte, hist []string, maxObjs int, only *vfTreeReplay) {
	for si, sn := range s.ref.nodes {
		if sn.freed {
			continue
		}
		if only != nil && only.Scope != si {
			continue
		}
		for _, e := range exprs {
			if only != nil && hex.EncodeToString(e) != only.Expr {
				continue
			}
			run.Case()
			var got uint32
			var pan interface{}
			func() {
				defer func() { pan = recover() }()
				got = s.tree.Find(uint32(si), e)
			}()
			want := vfIdx(s.ref.find(si, e))
			if pan != nil || got != want {
				desc := fmt.Sprintf("after [%s]: Find(scope=%d, %q) = %d, the search rules give %d", strings.Join(hist, " "), si, e, int32(got), int32(want))
				if pan != nil {
					desc = fmt.Sprintf("after [%s]: Find(scope=%d, %q) panicked: %v", strings.Join(hist, " "), si, e, pan)
				}
				run.Violate("lookup", fmt.Sprintf("%s|%d|%x", strings.Join(hist, " "), si, e), desc, vfTreeReplay{hist, si, hex.EncodeToString(e), maxObjs})
			}
		}
		// ClosestNamedAncestor
		if only == nil {
			run.Case()
			var got uint32
			var pan interface{}
			func() {
				defer func() { pan = recover() }()
				got = s.tree.ClosestNamedAncestor(s.tree.ObjectAt(uint32(si)))
			}()
			if want := vfIdx(s.ref.closestNamedAncestor(si)); pan != nil || got != want {
				run.Violate("closest-named-ancestor", fmt.Sprintf("%s|cna|%d", strings.Join(hist, " "), si),
					fmt.Sprintf("after [%s]: ClosestNamedAncestor(%d) = %d (panic %v), reference %d", strings.Join(hist, " "), si, int32(got), pan, int32(want)), vfTreeReplay{hist, -1, "", maxObjs})
			}
		}
	}
}

func TestVerifC13(t *testing.T) {
	run := verifrt.Start("C13")
	exprs := vfLookupExprs()

	var rp vfTreeReplay
	if run.Replaying(&rp) {
		s := vfTreeInit()
		for i, op := range rp.Ops {
			var pan interface{}
			msg := ""
			func() {
				defer func() { pan = recover() }()
				msg = vfTreeApply(s, op)
			}()
			if pan != nil {
				msg = fmt.Sprint("panic: ", pan)
			}
			if msg == "" {
				msg = vfCheckLinks(s)
			}
			run.Case()
			if msg != "" {
				run.Violate("tree", strings.Join(rp.Ops[:i+1], " "), msg, vfTreeReplay{rp.Ops[:i+1], -1, "", rp.MaxObj})
				run.Finish(true, "replay", "replay")
				return
			}
		}
		if rp.Scope >= 0 {
			vfLookups(run, s, exprs, rp.Ops, rp.MaxObj, &rp)
		} else {
			vfLookups(run, s, exprs, rp.Ops, rp.MaxObj, nil)
		}
		run.Finish(true, "replay", "replay")
		return
	}

	maxObjs, maxDepth := 4, 7
	if run.Thorough() {
		maxObjs, maxDepth = 5, 9
	}
	// Sharding: the subtree below each depth-2 state goes to one shard; shard 0 also owns depths 0..2.
	gr := &verifrt.Graph{MaxDepth: maxDepth, KeepPath: true, Stop: run.OutOfBudget}
	gr.Key = func(s interface{}) string { return s.(*vfTState).key() }
	const splitDepth = 3
	gr.Succ = func(gr *verifrt.Graph, id int, s interface{}, emit func(string, interface{})) {
		st := s.(*vfTState)
		hist := gr.Path(id)
		for oi, op := range vfTreeOps(st.ref, maxObjs) {
			if len(hist) == splitDepth-1 && run.NShards > 1 {
				// partition the search below depth splitDepth
				h := 0
				for _, c := range strings.Join(hist, " ") + "#" + strconv.Itoa(oi) {
					h = h*31 + int(c)
				}
				if h < 0 {
					h = -h
				}
				if !run.Mine(h) {
					continue
				}
			}
			n := vfRebuild(hist)
			var pan interface{}
			msg := ""
			func() {
				defer func() { pan = recover() }()
				msg = vfTreeApply(n, op)
			}()
			run.Case()
			if pan != nil {
				msg = fmt.Sprint("panic: ", pan)
			}
			if msg == "" {
				msg = vfCheckLinks(n)
			}
			nh := append(append([]string{}, hist...), op)
			if msg != "" {
				run.Violate("tree", strings.Join(nh, " "), fmt.Sprintf("after [%s]: %s", strings.Join(nh, " "), msg), vfTreeReplay{nh, -1, "", maxObjs})
				continue
			}
			emit(op, n)
		}
	}
	// lookups are run when a state is expanded or (for the last level) when discovered: do it in a wrapper around Succ
	succ := gr.Succ
	looked := map[int]bool{}
	gr.Succ = func(g *verifrt.Graph, id int, s interface{}, emit func(string, interface{})) {
		if !looked[id] {
			looked[id] = true
			vfLookups(run, s.(*vfTState), exprs, g.Path(id), maxObjs, nil)
		}
		hist := g.Path(id)
		succ(g, id, s, func(op string, ns interface{}) {
			before := g.States
			emit(op, ns)
			if g.States != before && len(hist)+1 == maxDepth {
				// last level: never expanded, so look up now
				vfLookups(run, ns.(*vfTState), exprs, append(append([]string{}, hist...), op), maxObjs, nil)
			}
		})
	}
	gr.Run([]interface{}{vfTreeInit()})
	run.States = gr.States
	run.Transitions = gr.Transitions
	run.Traces = gr.Transitions
	run.ForceSample(map[string]interface{}{"ops": []string{"new:A", "app:0:1", "new:B", "aft:0:2:1", "det:1", "free:1", "new:-"}, "note": "operation syntax: new:<name>, app:<parent>:<child>, aft:<parent>:<child>:<sibling>, det:<child>, free:<object>"})
	run.ForceSample(map[string]interface{}{"lookup_expressions": len(exprs), "example": []string{"^^AAAABBBB", "\\\x2eAAAABBBB", "AAAAB"}})
	run.Finish(gr.Complete || gr.DepthCapped, fmt.Sprintf("pool of <=%d objects beyond the root, all operation histories to depth %d (dedup on every field of the tree and of every pooled object); %d lookup expressions from every live scope in every state", maxObjs, maxDepth, len(exprs)),
		"BFS over the real ObjectTree; each shard owns the subtrees below a subset of the depth-3 states (states/transitions are summed over shards, shared prefixes are counted by every shard)")
}
