//go:build verif
// +build verif

package aml

// C11 — well-formed AML is parsed into a namespace that matches the program.
// Tiered bounded-exhaustive generation of programs from the grammar subset the
// parser claims to support; an encoder independent of the parser; a reference
// namespace applying the ACPI scoping rules to the AST.

import (
	"fmt"
	"os"
	"sort"
	"testing"

	"github.com/ProjectSerenity/firefly/kernel/internal/verifrt"
)

type vf11Replay struct {
	Tables   [][]*vfN `json:"tables"`
	PkgForce int      `json:"pkg_force"`
}

func vfI(v uint64) *vfN { return &vfN{K: "Int", I: v} }

func vfLeafs(name string) []*vfN {
	ret := func(n *vfN) []*vfN { return []*vfN{{K: "Return", C: []*vfN{n}}} }
	return []*vfN{
		{K: "Name", Name: name, C: []*vfN{vfI(0x12)}},
		{K: "Name", Name: name, C: []*vfN{vfI(0x1234)}},
		{K: "Name", Name: name, C: []*vfN{vfI(0x12345678)}},
		{K: "Name", Name: name, C: []*vfN{vfI(0x1234567890)}},
		{K: "Name", Name: name, C: []*vfN{{K: "Str", S: "hi"}}},
		{K: "Name", Name: name, C: []*vfN{{K: "Str", S: ""}}},
		{K: "Name", Name: name, C: []*vfN{{K: "Buf", S: "\x01\x02\x03"}}},
		{K: "Name", Name: name, C: []*vfN{{K: "Pkg", C: []*vfN{vfI(1), {K: "Str", S: "x"}}}}},
		{K: "Name", Name: name, C: []*vfN{{K: "One"}}},
		{K: "Name", Name: name, C: []*vfN{{K: "Ones"}}},
		{K: "Mutex", Name: name, I: 3},
		{K: "Event", Name: name},
		{K: "OpRegion", Name: name, C: []*vfN{vfI(0x3000), vfI(4)}},
		{K: "Device", Name: name},
		{K: "ThermalZone", Name: name},
		{K: "Processor", Name: name},
		{K: "PowerRes", Name: name},
		{K: "Method", Name: name, I: 0, C: ret(vfI(1))},
		{K: "Method", Name: name, I: 2, C: ret(&vfN{K: "Add", C: []*vfN{{K: "Arg", I: 0}, {K: "Arg", I: 1}, {K: "NullTarget"}}})},
		{K: "Device", Name: name, C: []*vfN{{K: "Name", Name: "_HID", C: []*vfN{vfI(7)}}}},
	}
}

type vfWrap struct {
	name string
	f    func(b []*vfN) []*vfN
}

func vfWraps() []vfWrap {
	dev := func(n string, b []*vfN) *vfN { return &vfN{K: "Device", Name: n, C: b} }
	scope := func(n string, b []*vfN) *vfN { return &vfN{K: "Scope", Name: n, C: b} }
	return []vfWrap{
		{"root", func(b []*vfN) []*vfN { return b }},
		{"scope_SB", func(b []*vfN) []*vfN { return []*vfN{scope("\\_SB_", b)} }},
		{"device", func(b []*vfN) []*vfN { return []*vfN{dev("DEV0", b)} }},
		{"sb.device", func(b []*vfN) []*vfN { return []*vfN{scope("\\_SB_", []*vfN{dev("DEV0", b)})} }},
		{"dev.dev", func(b []*vfN) []*vfN { return []*vfN{dev("DEV0", []*vfN{dev("DEV1", b)})} }},
		{"thermal", func(b []*vfN) []*vfN { return []*vfN{{K: "ThermalZone", Name: "TZ00", C: b}} }},
		{"processor", func(b []*vfN) []*vfN { return []*vfN{{K: "Processor", Name: "CPU0", C: b}} }},
		{"powerres", func(b []*vfN) []*vfN { return []*vfN{{K: "PowerRes", Name: "PWR0", C: b}} }},
		{"scope(dev)", func(b []*vfN) []*vfN { return []*vfN{dev("DEV0", nil), scope("DEV0", b)} }},
		{"scope(dev)-forward", func(b []*vfN) []*vfN { return []*vfN{scope("DEV0", b), dev("DEV0", nil)} }},
		{"scope(\\_SB_.dev)", func(b []*vfN) []*vfN {
			return []*vfN{scope("\\_SB_", []*vfN{dev("DEV0", nil)}), scope("\\_SB_.DEV0", b)}
		}},
		{"scope(3-segment)", func(b []*vfN) []*vfN {
			return []*vfN{scope("\\_SB_", []*vfN{dev("DEV0", []*vfN{dev("DEV1", nil)})}), scope("\\_SB_.DEV0.DEV1", b)}
		}},
		{"scope-in-scope", func(b []*vfN) []*vfN { return []*vfN{scope("\\_SB_", []*vfN{dev("DEV0", nil), scope("DEV0", b)})} }},
	}
}

var vfNameForms = []string{"FOO0", "\\FOO0", "^FOO0", "\\_SB_.FOO0", "^^FOO0", "_SB_.FOO0", "\\_SB_.DEV0.FOO0"}

func vfCallProgs() map[string][]*vfN {
	arg0 := []*vfN{{K: "Return", C: []*vfN{{K: "Arg", I: 0}}}}
	m1 := func(argc uint64) *vfN { return &vfN{K: "Method", Name: "M001", I: argc, C: arg0} }
	call := func(name string, args ...*vfN) *vfN { return &vfN{K: "Call", Name: name, C: args} }
	ret := func(n *vfN) *vfN { return &vfN{K: "Return", C: []*vfN{n}} }
	meth := func(name string, argc uint64, body ...*vfN) *vfN { return &vfN{K: "Method", Name: name, I: argc, C: body} }
	store := func(a, b *vfN) *vfN { return &vfN{K: "Store", C: []*vfN{a, b}} }
	loc0 := &vfN{K: "Local", I: 0}
	op := func(code string, args ...*vfN) *vfN { return &vfN{K: "Op", S: code, C: args} }
	null := &vfN{K: "NullTarget"}
	pkg0 := &vfN{K: "Name", Name: "PKG0", C: []*vfN{{K: "Pkg", C: []*vfN{vfI(1), vfI(2)}}}}
	const (
		derefOf  = "83"
		index    = "88"
		sizeOf   = "87"
		lEqual   = "93"
		lNot     = "92"
		and      = "7b"
		subtract = "74"
		incr     = "75"
		toInt    = "99"
		notify   = "86"
	)
	return map[string][]*vfN{
		"deref-index-call-fwd": {pkg0, meth("M000", 0, ret(op(derefOf, op(index, &vfN{K: "Call", Name: "PKG0"}, call("M001", vfI(1)), null)))), m1(1)},
		"deref-index-call-bwd": {pkg0, m1(1), meth("M000", 0, ret(op(derefOf, op(index, &vfN{K: "Call", Name: "PKG0"}, call("M001", vfI(1)), null))))},
		"store-deref-call":     {pkg0, meth("M000", 0, store(op(derefOf, op(index, &vfN{K: "Call", Name: "PKG0"}, call("M001", vfI(0)), null)), loc0), ret(loc0)), m1(1)},
		"lequal-call-fwd":      {meth("M000", 0, &vfN{K: "If", C: []*vfN{op(lEqual, call("M001", vfI(1), vfI(2)), vfI(2)), ret(vfI(3))}}), m1(2)},
		"lnot-call-fwd":        {meth("M000", 0, &vfN{K: "If", C: []*vfN{op(lNot, call("M001", vfI(1))), ret(vfI(3))}}), m1(1)},
		"and-call-last-fwd":    {meth("M000", 0, store(op(and, vfI(0xff), call("M001", vfI(1), vfI(2)), null), loc0)), m1(2)},
		"subtract-two-calls":   {meth("M000", 0, ret(op(subtract, call("M001", vfI(1)), call("M001", vfI(2)), null))), m1(1)},
		"sizeof-toint-call":    {pkg0, meth("M000", 0, store(op(sizeOf, &vfN{K: "Call", Name: "PKG0"}), loc0), ret(op(toInt, call("M001", loc0), null))), m1(1)},
		"incr-notify":          {{K: "Device", Name: "DEVN"}, meth("M000", 0, op(incr, loc0), op(notify, &vfN{K: "Call", Name: "DEVN"}, call("M001", vfI(1))), ret(loc0)), m1(1)},
		"while-call-2args-fwd": {meth("M000", 0, &vfN{K: "While", C: []*vfN{call("M001", vfI(1), vfI(2)), store(vfI(5), loc0)}}), m1(2)},
		"while-call-2args-bwd": {m1(2), meth("M000", 0, &vfN{K: "While", C: []*vfN{call("M001", vfI(1), vfI(2)), store(vfI(5), loc0)}})},
		// module-level code (executable statements outside methods): the invoked method is declared later
		"module-store-call-fwd":   {{K: "Name", Name: "VAL0", C: []*vfN{vfI(0)}}, store(call("M001", vfI(1)), &vfN{K: "Call", Name: "VAL0"}), m1(1)},
		"module-store-call-bwd":   {m1(1), {K: "Name", Name: "VAL0", C: []*vfN{vfI(0)}}, store(call("M001", vfI(1)), &vfN{K: "Call", Name: "VAL0"})},
		"module-deref-call-fwd":   {pkg0, {K: "Name", Name: "VAL0", C: []*vfN{vfI(0)}}, store(op(derefOf, op(index, &vfN{K: "Call", Name: "PKG0"}, call("M001", vfI(1)), null)), &vfN{K: "Call", Name: "VAL0"}), m1(1)},
		"module-if-call-2args-fwd": {{K: "If", C: []*vfN{op(lEqual, call("M001", vfI(1), vfI(2)), vfI(2)), store(vfI(1), loc0)}}, m1(2)},
		"module-nested-calls-fwd": {{K: "Name", Name: "VAL0", C: []*vfN{vfI(0)}}, store(call("M001", call("M002", vfI(1)), vfI(2)), &vfN{K: "Call", Name: "VAL0"}), m1(2), meth("M002", 1, arg0...)},
		// module-level operators whose LAST operand is a call declared later: the call's arguments were parsed as siblings
		// of the operator and have to be pulled in from the parent's level
		"module-lnot-call-last-fwd":   {{K: "Name", Name: "VAL0", C: []*vfN{vfI(0)}}, store(op(lNot, call("M001", vfI(1))), &vfN{K: "Call", Name: "VAL0"}), m1(1)},
		"module-lnot-call2-last-fwd":  {{K: "Name", Name: "VAL0", C: []*vfN{vfI(0)}}, store(op(lNot, call("M001", vfI(1), vfI(2))), &vfN{K: "Call", Name: "VAL0"}), m1(2)},
		"module-deref-call-last-fwd":  {{K: "Name", Name: "VAL0", C: []*vfN{vfI(0)}}, store(op(derefOf, call("M001", vfI(1))), &vfN{K: "Call", Name: "VAL0"}), m1(1)},
		"module-lequal-call-last-fwd": {{K: "If", C: []*vfN{op(lEqual, vfI(2), call("M001", vfI(1), vfI(2))), store(vfI(1), loc0)}}, m1(2)},
		"module-if-lnot-call-fwd":     {{K: "If", C: []*vfN{op(lNot, call("M001", vfI(1))), store(vfI(1), loc0)}}, m1(1)},
		"module-nested-last-fwd":      {{K: "Name", Name: "VAL0", C: []*vfN{vfI(0)}}, store(op(lNot, op(lNot, call("M001", vfI(1)))), &vfN{K: "Call", Name: "VAL0"}), m1(1)},
		// operators whose first operand is a SuperName holding another operator (SizeOf(DerefOf(Index(..))) and friends):
		// the inner operator is attached to the outer one at once and finds its own operands among the outer one's siblings
		"sizeof-deref-index":          {pkg0, meth("M000", 0, ret(op(sizeOf, op(derefOf, op(index, &vfN{K: "Call", Name: "PKG0"}, vfI(1), null)))))},
		"sizeof-deref-index-call-fwd": {pkg0, meth("M000", 0, ret(op(sizeOf, op(derefOf, op(index, &vfN{K: "Call", Name: "PKG0"}, call("M001", vfI(1)), null))))), m1(1)},
		"sizeof-deref-call-fwd":       {meth("M000", 0, ret(op(sizeOf, op(derefOf, call("M001", vfI(1), vfI(2)))))), m1(2)},
		"objtype-deref-index-module":  {pkg0, {K: "Name", Name: "VAL0", C: []*vfN{vfI(0)}}, store(op("8e", op(derefOf, op(index, &vfN{K: "Call", Name: "PKG0"}, call("M001", vfI(0)), null))), &vfN{K: "Call", Name: "VAL0"}), m1(1)},
		"incr-index":                  {pkg0, meth("M000", 0, op(incr, op(index, &vfN{K: "Call", Name: "PKG0"}, vfI(0), null)), ret(vfI(0)))},
		"notify-deref-index-call-fwd": {pkg0, meth("M000", 0, op(notify, op(derefOf, op(index, &vfN{K: "Call", Name: "PKG0"}, call("M001", vfI(0)), null)), vfI(0x80)), ret(vfI(0))), m1(1)},
		// the same method name declared at two levels of one ancestor chain (shadowing): a call from inside the inner
		// scope binds to the inner declaration, one from outside to the outer one - in either order of resolution
		"shadowed-method-inner-last": {meth("HLPR", 1, arg0...), {K: "Device", Name: "DEV0", C: []*vfN{meth("HLPR", 2, arg0...), meth("M000", 0, store(vfI(5), loc0), call("HLPR", vfI(1), vfI(2)))}}, meth("M002", 0, ret(call("HLPR", vfI(1))))},
		"shadowed-method-outer-last": {meth("HLPR", 1, arg0...), meth("M002", 0, ret(call("HLPR", vfI(1)))), {K: "Device", Name: "DEV0", C: []*vfN{meth("HLPR", 2, arg0...), meth("M000", 0, ret(call("HLPR", vfI(1), vfI(2))))}}},
		"shadowed-method-fwd":        {{K: "Device", Name: "DEV0", C: []*vfN{meth("M000", 0, ret(call("HLPR", vfI(1), vfI(2)))), meth("HLPR", 2, arg0...)}}, meth("M002", 0, ret(call("HLPR", vfI(1)))), meth("HLPR", 1, arg0...)},
		"shadowed-name-two-devices":  {{K: "Name", Name: "VAL0", C: []*vfN{vfI(1)}}, {K: "Device", Name: "DEV0", C: []*vfN{{K: "Name", Name: "VAL0", C: []*vfN{vfI(2)}}, meth("M000", 0, ret(&vfN{K: "Call", Name: "VAL0"}))}}, {K: "Device", Name: "DEV1", C: []*vfN{meth("M000", 0, ret(&vfN{K: "Call", Name: "VAL0"}))}}},
		// a call whose argument is itself an operator with arguments (the operator's arguments follow at the outer level)
		"call-arg-operator-stmt-fwd": {pkg0, meth("M000", 0, call("M001", op(derefOf, op(index, &vfN{K: "Call", Name: "PKG0"}, vfI(0), null))), ret(vfI(0))), m1(1)},
		"call-arg-operator-stmt-bwd": {pkg0, m1(1), meth("M000", 0, call("M001", op(derefOf, op(index, &vfN{K: "Call", Name: "PKG0"}, vfI(0), null))), ret(vfI(0)))},
		"call-arg-operator-ret-fwd":  {pkg0, meth("M000", 0, ret(call("M001", op(derefOf, op(index, &vfN{K: "Call", Name: "PKG0"}, vfI(1), null)), vfI(7)))), m1(2)},
		"call-arg-operator-last-fwd": {pkg0, meth("M000", 0, call("M001", vfI(7), op(subtract, loc0, vfI(1), null)), ret(vfI(0))), m1(2)},
		"call-arg-operator-module":   {pkg0, {K: "Name", Name: "VAL0", C: []*vfN{vfI(0)}}, store(call("M001", op(derefOf, op(index, &vfN{K: "Call", Name: "PKG0"}, vfI(0), null))), &vfN{K: "Call", Name: "VAL0"}), m1(1)},
		"fwd":                 {meth("M000", 0, ret(call("M001", vfI(1), vfI(2)))), m1(2)},
		"bwd":                 {m1(2), meth("M000", 0, ret(call("M001", vfI(1), vfI(2))))},
		"zero-args-fwd":       {meth("M000", 0, ret(call("M001"))), m1(0)},
		"nested-fwd":          {meth("M000", 0, ret(call("M001", call("M002", vfI(1)), vfI(2)))), m1(2), meth("M002", 1, arg0...)},
		"nested-bwd":          {m1(2), meth("M002", 1, arg0...), meth("M000", 0, ret(call("M001", call("M002", vfI(1)), vfI(2))))},
		"stmt-call-fwd":       {meth("M000", 0, call("M001", vfI(1)), store(vfI(5), loc0)), m1(1)},
		"two-calls-fwd":       {meth("M000", 0, call("M001", vfI(1)), call("M001", vfI(2)), store(vfI(5), loc0)), m1(1)},
		"call-in-if-fwd":      {meth("M000", 0, &vfN{K: "If", C: []*vfN{call("M001", vfI(1)), ret(vfI(3))}}, &vfN{K: "Else", C: []*vfN{ret(vfI(4))}}), m1(1)},
		"call-in-while-fwd":   {meth("M000", 0, &vfN{K: "While", C: []*vfN{call("M001", vfI(1)), store(vfI(5), loc0)}}), m1(1)},
		"call-store-add":      {meth("M000", 0, store(&vfN{K: "Add", C: []*vfN{call("M001", vfI(1)), vfI(2), {K: "NullTarget"}}}, loc0)), m1(1)},
		"call-dev-method":     {{K: "Device", Name: "DEV0", C: []*vfN{m1(1)}}, meth("M000", 0, ret(call("DEV0.M001", vfI(1))))},
		"call-dev-method-fwd": {meth("M000", 0, ret(call("\\DEV0.M001", vfI(1)))), {K: "Device", Name: "DEV0", C: []*vfN{m1(1)}}},
		"call-upward-search":  {m1(1), {K: "Device", Name: "DEV0", C: []*vfN{meth("M000", 0, ret(call("M001", vfI(1))))}}},
		"call-caret":          {m1(1), {K: "Device", Name: "DEV0", C: []*vfN{meth("M000", 0, ret(call("^^M001", vfI(1))))}}},
		"call-abs":            {m1(1), {K: "Device", Name: "DEV0", C: []*vfN{meth("M000", 0, ret(call("\\M001", vfI(1))))}}},
		"field":               {{K: "OpRegion", Name: "REG0", C: []*vfN{vfI(0x3000), vfI(4)}}, {K: "Field", Name: "REG0", I: 1, C: []*vfN{{K: "F", S: "FLD0", I: 8}, {K: "R", I: 4}, {K: "F", S: "FLD1", I: 4}}}},
		"field-wide":          {{K: "OpRegion", Name: "REG0", C: []*vfN{vfI(0x3000), vfI(0x200)}}, {K: "Field", Name: "REG0", I: 1, C: []*vfN{{K: "F", S: "FLD0", I: 63}, {K: "R", I: 64}, {K: "F", S: "FLD1", I: 0x123}, {K: "F", S: "FLD2", I: 1}}}},
		// field unit widths around every PkgLength-style encoding boundary (1-byte lead up to 63; 2-, 3- and 4-byte forms,
		// with zero and non-zero low nibbles)
		"field-widths-2byte": {{K: "OpRegion", Name: "REG0", C: []*vfN{vfI(0x3000), vfI(0x4000)}}, {K: "Field", Name: "REG0", I: 1, C: []*vfN{{K: "F", S: "FL00", I: 62}, {K: "F", S: "FL01", I: 63}, {K: "F", S: "FL02", I: 64}, {K: "F", S: "FL03", I: 65}, {K: "F", S: "FL04", I: 80}, {K: "F", S: "FL05", I: 127}, {K: "F", S: "FL06", I: 128}, {K: "F", S: "FL07", I: 255}, {K: "F", S: "FL08", I: 256}, {K: "F", S: "FL09", I: 1024}, {K: "F", S: "FL10", I: 4080}, {K: "F", S: "FL11", I: 4095}, {K: "F", S: "FL12", I: 1}}}},
		"field-widths-3byte": {{K: "OpRegion", Name: "REG0", C: []*vfN{vfI(0x3000), vfI(0x100000)}}, {K: "Field", Name: "REG0", I: 1, C: []*vfN{{K: "F", S: "FL00", I: 4096}, {K: "F", S: "FL01", I: 4097}, {K: "R", I: 4096}, {K: "F", S: "FL02", I: 0x10000}, {K: "F", S: "FL03", I: 0xfffff}, {K: "F", S: "FL04", I: 0x100000}, {K: "F", S: "FL05", I: 0x100010}, {K: "R", I: 0x40}, {K: "F", S: "FL06", I: 16}, {K: "F", S: "FL07", I: 0xfffffff}}}},
		"field-in-dev":        {{K: "Device", Name: "DEV0", C: []*vfN{{K: "OpRegion", Name: "REG0", C: []*vfN{vfI(0x3000), vfI(4)}}, {K: "Field", Name: "REG0", I: 1, C: []*vfN{{K: "F", S: "FLD0", I: 8}}}}}},
		"buf-then-method":     {{K: "Name", Name: "BUF0", C: []*vfN{{K: "Buf", S: "ab"}}}, meth("M000", 0, ret(vfI(1)))},
		"while-store":         {meth("M000", 1, &vfN{K: "While", C: []*vfN{{K: "Arg", I: 0}, store(vfI(5), loc0)}}, &vfN{K: "If", C: []*vfN{loc0, ret(vfI(3))}}, &vfN{K: "Else", C: []*vfN{ret(vfI(4))}})},
	}
}

type vf11 struct {
	run     *verifrt.Run
	fixed   bool // this binary is built with the candidate repair of obj_tree.go (cross-check part)
	skipped int64
}

func (c *vf11) check(tables [][]*vfN, pf int) {
	c.run.Case()
	verifrt.JournalJSON(vf11Replay{tables, pf})
	res := vfCheckProgram(tables, vfEncCfg{pf})
	if res.Skip != "" {
		c.skipped++
		return
	}
	if res.Class == "" {
		c.run.Distinct(vfProgString(tables))
		return
	}
	// attribute to the known root causes by structural predicate (never by message)
	tag := "other"
	switch {
	case c.fixed:
		tag = "fixed-tree"
	case res.Ref.k1:
		tag = "K1"
	case res.Ref.k2:
		tag = "K2"
	}
	c.run.Violate(res.Class, fmt.Sprintf("%s pf=%d %s", tag, pf, vfProgString(tables)), fmt.Sprintf("program [%s] (PkgLength form %d): %s", vfProgString(tables), pf, res.Msg), vf11Replay{tables, pf})
}

func TestVerifC11(t *testing.T) {
	run := verifrt.Start("C11")
	c := &vf11{run: run, fixed: os.Getenv("VERIF_C11_FIXED") != ""}
	var rp vf11Replay
	if run.Replaying(&rp) {
		c.check(rp.Tables, rp.PkgForce)
		run.Finish(true, "replay", "replay")
		return
	}
	wraps := vfWraps()
	idx := 0
	mine := func() bool { idx++; return run.Mine(idx) }
	pfs := []int{0, 2}
	if run.Thorough() {
		pfs = []int{0, 2, 3, 4}
	}
	// T1: every single construct x name form x container x PkgLength encoding
	for _, w := range wraps {
		for _, nf := range vfNameForms {
			if !mine() {
				continue
			}
			for _, leaf := range vfLeafs(nf) {
				for _, pf := range pfs {
					c.check([][]*vfN{w.f([]*vfN{leaf})}, pf)
				}
			}
			run.Sample(map[string]string{"tier": "T1", "program": vfProgString([][]*vfN{w.f([]*vfN{vfLeafs(nf)[0]})})})
		}
	}
	// T2: call/field programs in containers; every ordered pair of constructs
	cps := vfCallProgs()
	var cn []string
	for k := range cps {
		cn = append(cn, k)
	}
	sort.Strings(cn)
	for _, k := range cn {
		for _, w := range wraps {
			if !mine() {
				continue
			}
			for _, pf := range pfs {
				c.check([][]*vfN{w.f(cps[k])}, pf)
			}
		}
	}
	la, lb := vfLeafs("FOO0"), vfLeafs("BAR0")
	for i := range la {
		for _, w := range wraps {
			if !mine() {
				continue
			}
			for j := range lb {
				c.check([][]*vfN{w.f([]*vfN{la[i], lb[j]})}, 0)
			}
		}
	}
	if run.Thorough() {
		// T2+: call/field/operator programs inside every pair of nested containers; ordered triples of constructs
		for _, k := range cn {
			for _, w1 := range wraps[:8] {
				if !mine() {
					continue
				}
				for _, w2 := range wraps[:8] {
					inner := w2.f(vfCallProgs()[k])
					vfRename(inner, map[string]string{"DEV0": "DEVA", "DEV1": "DEVB", "TZ00": "TZ0A", "CPU0": "CPUA", "PWR0": "PWRA"})
					c.check([][]*vfN{w1.f(inner)}, 0)
				}
			}
		}
		lc := vfLeafs("BAZ0")
		for i := range la {
			for _, w := range []vfWrap{wraps[0], wraps[2], wraps[1], wraps[8]} {
				if !mine() {
					continue
				}
				for j := range lb {
					for k := range lc {
						c.check([][]*vfN{w.f([]*vfN{vfLeafs("FOO0")[i], vfLeafs("BAR0")[j], vfLeafs("BAZ0")[k]})}, 0)
					}
				}
			}
		}
	}
	// T3: name form x container x nesting (containers composed twice), thorough adds all leafs
	for _, w1 := range wraps[:8] {
		for _, w2 := range wraps[:8] {
			if !mine() {
				continue
			}
			for _, nf := range vfNameForms {
				leafs := vfLeafs(nf)
				if !run.Thorough() {
					leafs = []*vfN{leafs[0], leafs[13], leafs[17]}
				}
				for _, leaf := range leafs {
					inner := w2.f([]*vfN{leaf})
					// rename the inner container so that it does not collide with the outer one
					vfRename(inner, map[string]string{"DEV0": "DEVA", "DEV1": "DEVB", "TZ00": "TZ0A", "CPU0": "CPUA", "PWR0": "PWRA"})
					c.check([][]*vfN{w1.f(inner)}, 0)
				}
			}
		}
	}
	// T4: two-table loads: the second table scopes into / references the first
	firsts := [][]*vfN{
		{{K: "Device", Name: "DEV0"}},
		{{K: "Scope", Name: "\\_SB_", C: []*vfN{{K: "Device", Name: "DEV0"}}}},
		{{K: "Method", Name: "M001", I: 1, C: []*vfN{{K: "Return", C: []*vfN{{K: "Arg", I: 0}}}}}},
		{{K: "Device", Name: "DEV0", C: []*vfN{{K: "Method", Name: "M001", I: 1, C: []*vfN{{K: "Return", C: []*vfN{{K: "Arg", I: 0}}}}}}}},
		{{K: "ThermalZone", Name: "TZ00"}, {K: "Name", Name: "VAL0", C: []*vfN{vfI(9)}}},
	}
	seconds := func(leaf *vfN) [][]*vfN {
		callM := &vfN{K: "Method", Name: "M000", I: 0, C: []*vfN{{K: "Return", C: []*vfN{{K: "Call", Name: "M001", C: []*vfN{vfI(1)}}}}}}
		return [][]*vfN{
			{{K: "Scope", Name: "\\DEV0", C: []*vfN{leaf}}},
			{{K: "Scope", Name: "\\_SB_.DEV0", C: []*vfN{leaf}}},
			{{K: "Scope", Name: "\\_SB_", C: []*vfN{{K: "Scope", Name: "DEV0", C: []*vfN{leaf}}}}},
			{{K: "Scope", Name: "\\TZ00", C: []*vfN{leaf}}},
			{callM},
			{{K: "Method", Name: "M000", I: 0, C: []*vfN{{K: "Return", C: []*vfN{{K: "Call", Name: "\\DEV0.M001", C: []*vfN{vfI(1)}}}}}}},
			{leaf},
		}
	}
	// first tables with deferred blocks (Buffer, While, Package) and second tables that need the two-phase treatment again
	// (forward calls, nested packages followed by siblings): the parser is reused across tables
	ret := func(n *vfN) *vfN { return &vfN{K: "Return", C: []*vfN{n}} }
	deferredFirsts := [][]*vfN{
		{{K: "Name", Name: "BUF0", C: []*vfN{{K: "Buf", S: "ab"}}}},
		{{K: "Method", Name: "MTHW", I: 1, C: []*vfN{{K: "While", C: []*vfN{{K: "Arg", I: 0}, {K: "Store", C: []*vfN{vfI(5), {K: "Local", I: 0}}}}}}}},
		{{K: "Device", Name: "DEV0", C: []*vfN{{K: "Name", Name: "PKG0", C: []*vfN{{K: "Pkg", C: []*vfN{vfI(1), {K: "Buf", S: "xyz"}}}}}}}},
	}
	laterTables := [][]*vfN{
		{{K: "Method", Name: "M000", I: 0, C: []*vfN{ret(&vfN{K: "Call", Name: "MTH2", C: []*vfN{vfI(1), vfI(2)}})}}, {K: "Method", Name: "MTH2", I: 2, C: []*vfN{ret(&vfN{K: "Arg", I: 0})}}},
		{{K: "Device", Name: "DEVX", C: []*vfN{{K: "Device", Name: "DEV1", C: []*vfN{{K: "Name", Name: "_HID", C: []*vfN{vfI(1)}}}}, {K: "Device", Name: "DEV2", C: []*vfN{{K: "Name", Name: "_HID", C: []*vfN{vfI(2)}}}}, {K: "Name", Name: "TAIL", C: []*vfN{vfI(3)}}}}},
		{{K: "Scope", Name: "\\_SB_", C: []*vfN{{K: "Device", Name: "DEVY", C: []*vfN{{K: "Method", Name: "MA00", I: 0, C: []*vfN{ret(&vfN{K: "Call", Name: "MB00", C: []*vfN{vfI(7)}})}}, {K: "Method", Name: "MB00", I: 1, C: []*vfN{ret(&vfN{K: "Arg", I: 0})}}}}, {K: "Name", Name: "AFT0", C: []*vfN{{K: "Buf", S: "q"}}}}}},
		{{K: "Name", Name: "BUF9", C: []*vfN{{K: "Buf", S: "zz"}}}, {K: "Method", Name: "M009", I: 0, C: []*vfN{{K: "While", C: []*vfN{{K: "Call", Name: "M010", C: []*vfN{vfI(1)}}, {K: "Store", C: []*vfN{vfI(5), {K: "Local", I: 0}}}}}}}, {K: "Method", Name: "M010", I: 1, C: []*vfN{ret(&vfN{K: "Arg", I: 0})}}},
	}
	for _, f := range deferredFirsts {
		if !mine() {
			continue
		}
		for _, l := range laterTables {
			c.check([][]*vfN{f, l}, 0)
			for _, l2 := range laterTables {
				if &l2[0] != &l[0] && vfProgString([][]*vfN{l}) != vfProgString([][]*vfN{l2}) {
					c.check([][]*vfN{f, l, l2}, 0)
				}
			}
		}
		for _, k := range cn {
			c.check([][]*vfN{f, vfCallProgs()[k]}, 0)
		}
	}
	// tables that each declare field units, loaded one after the other on one parser: the units of the earlier
	// table(s) must still describe their own region, offset, width and access type after the later ones were parsed
	fieldTable := func(reg string, acc uint64, base uint64, units ...*vfN) []*vfN {
		return []*vfN{{K: "OpRegion", Name: reg, C: []*vfN{vfI(base), vfI(0x200)}}, {K: "Field", Name: reg, I: acc, C: units}}
	}
	fu := func(name string, w uint64) *vfN { return &vfN{K: "F", S: name, I: w} }
	fieldTables := [][]*vfN{
		fieldTable("REGA", 1, 0x3000, fu("FA00", 8), &vfN{K: "R", I: 4}, fu("FA01", 4)),
		fieldTable("REGB", 2, 0x4000, fu("FB00", 16), fu("FB01", 1), fu("FB02", 63)),
		fieldTable("REGC", 3, 0x5000, &vfN{K: "R", I: 64}, fu("FC00", 32)),
		{{K: "Device", Name: "DEVF", C: fieldTable("REGD", 1, 0x6000, fu("FD00", 3), fu("FD01", 5), fu("FD02", 8), fu("FD03", 0x123))}},
	}
	if mine() {
		for i, a := range fieldTables {
			for j, b := range fieldTables {
				if i == j {
					continue
				}
				c.check([][]*vfN{a, b}, 0)
				for k, d := range fieldTables {
					if k != i && k != j {
						c.check([][]*vfN{a, b, d}, 0)
					}
				}
			}
		}
	}
	for _, f := range firsts {
		if !mine() {
			continue
		}
		for _, nf := range vfNameForms[:3] {
			for _, leaf := range vfLeafs(nf) {
				for _, s := range seconds(leaf) {
					c.check([][]*vfN{f, s}, 0)
				}
			}
		}
	}
	// T5: dependency chains that need several merge-scope / relocate passes: every ordered pair and triple of blocks
	blocks := func() []*vfN {
		nm := func(n string) *vfN { return &vfN{K: "Name", Name: n, C: []*vfN{vfI(7)}} }
		return []*vfN{
			{K: "Scope", Name: "\\_SB_", C: []*vfN{{K: "Device", Name: "^DEVA"}}},
			{K: "Scope", Name: "\\_GPE", C: []*vfN{{K: "Device", Name: "\\DEVA.DEVX"}}},
			{K: "Scope", Name: "\\DEVA", C: []*vfN{{K: "Scope", Name: "DEVX", C: []*vfN{nm("YYYY")}}}},
			{K: "Scope", Name: "\\DEVA", C: []*vfN{nm("ZZZZ")}},
			{K: "Scope", Name: "\\_SB_", C: []*vfN{{K: "Device", Name: "\\DEVA.DEVX"}, {K: "Device", Name: "^DEVA"}}},
			{K: "Device", Name: "\\DEVA"},
			// (a '^' declaration inside a forward Scope(\\DEVA) nested in another Scope is left out: on the real tree it is an
			// instance of K2, and the kept candidate repair does not cover that nesting - see DESIGN.md 8.3)
			{K: "Scope", Name: "\\_TZ_", C: []*vfN{{K: "ThermalZone", Name: "\\_SB_.TZ00"}, {K: "Scope", Name: "\\_SB_", C: []*vfN{{K: "Scope", Name: "TZ00", C: []*vfN{nm("TMP0")}}}}}},
		}
	}
	nb := len(blocks())
	for i := 0; i < nb; i++ {
		if !mine() {
			continue
		}
		for j := 0; j < nb; j++ {
			if j == i {
				continue
			}
			b := blocks()
			c.check([][]*vfN{{b[i], b[j]}}, 0)
			for k := 0; k < nb; k++ {
				if k == i || k == j {
					continue
				}
				b := blocks()
				c.check([][]*vfN{{b[i], b[j], b[k]}}, 0)
				// the same chain split over two tables
				b = blocks()
				c.check([][]*vfN{{b[i], b[j]}, {b[k]}}, 0)
			}
		}
	}
	run.Count("rejected_by_reference_as_ill_formed", c.skipped)
	run.Finish(true, fmt.Sprintf("T1: 20 constructs x 7 name forms x 13 containers x PkgLength encodings %v; T2: 59 call/field/operator/module-level programs x 13 containers, every ordered pair of constructs x 13 containers; T3: constructs x name forms x 8x8 nested containers (thorough: all constructs; plus T2 programs in 8x8 nested containers and every ordered triple of constructs in 4 containers); T4: 5 first tables x 7 second tables (Scope into / call into / plain) x constructs, and 3 first tables with deferred blocks (Buffer, While, Package) x later tables that need the two-phase treatment again (forward calls, nested packages followed by siblings, every T2 program), two and three tables on one parser; every ordered pair and triple of 4 tables that each declare field units; T5: every ordered pair and triple of 7 scope/relocation blocks whose resolution needs several passes (also split over two tables)", pfs),
		"a program is distinct by its ASL rendering and non-trivial if the reference accepts it as well-formed and the parsed namespace agrees with it")
}

// vfRename renames declared/referenced segments in place.
func vfRename(ns []*vfN, m map[string]string) {
	for _, n := range ns {
		for from, to := range m {
			if n.Name == from {
				n.Name = to
			}
		}
		vfRename(n.C, m)
	}
}
