//go:build verif
// +build verif

package aml

import (
	"bytes"
	"encoding/hex"
	"fmt"
	"sort"
	"strings"
	"unsafe"

	"github.com/ProjectSerenity/firefly/kernel/device/acpi/table"
)

// ---------- AST ----------
type vfN struct {
	K    string `json:"k"`           // Scope Device Method Name OpRegion Field Mutex Event Processor PowerRes ThermalZone | Return Store Call If Else While Add | Int Str Buf Pkg Local Arg Zero One Ones | F R (field elements)
	Name string `json:"n,omitempty"` // name path as written with '.' separators
	I    uint64 `json:"i,omitempty"` // integer payload / argc / width
	S    string `json:"s,omitempty"`
	C    []*vfN `json:"c,omitempty"` // children / args
	Off  uint64 `json:"-"`           // field units: bit offset computed by the reference
}

// String renders the AST in ASL-like syntax (for messages).
func (n *vfN) String() string {
	var sb strings.Builder
	var rec func(n *vfN)
	rec = func(n *vfN) {
		sb.WriteString(n.K)
		if n.Name != "" {
			sb.WriteString("(" + n.Name + ")")
		}
		switch n.K {
		case "Int", "Local", "Arg", "Method", "F", "R":
			fmt.Fprintf(&sb, "#%d", n.I)
		}
		if n.S != "" {
			fmt.Fprintf(&sb, "%q", n.S)
		}
		if len(n.C) > 0 {
			sb.WriteString("{")
			for i, c := range n.C {
				if i > 0 {
					sb.WriteString(" ")
				}
				rec(c)
			}
			sb.WriteString("}")
		}
	}
	rec(n)
	return sb.String()
}

func vfProgString(tables [][]*vfN) string {
	var parts []string
	for _, t := range tables {
		var items []string
		for _, n := range t {
			items = append(items, n.String())
		}
		parts = append(parts, strings.Join(items, " "))
	}
	return strings.Join(parts, " || ")
}

func vfEncPkgLen(n int, force int) []byte {
	// n = bytes following pkglen
	switch {
	case force <= 1 && n+1 < 0x40:
		return []byte{byte(n + 1)}
	case force <= 2 && n+2 < 1<<12:
		t := n + 2
		return []byte{0x40 | byte(t&0xf), byte(t >> 4)}
	case force <= 3 && n+3 < 1<<20:
		t := n + 3
		return []byte{0x80 | byte(t&0xf), byte(t >> 4), byte(t >> 12)}
	default:
		t := n + 4
		return []byte{0xc0 | byte(t&0xf), byte(t >> 4), byte(t >> 12), byte(t >> 20)}
	}
}
// vfEncRawLen encodes v itself in PkgLength format (field widths are not package lengths: they do not include their own size).
func vfEncRawLen(v int) []byte {
	switch {
	case v < 0x40:
		return []byte{byte(v)}
	case v < 1<<12:
		return []byte{0x40 | byte(v&0xf), byte(v >> 4)}
	case v < 1<<20:
		return []byte{0x80 | byte(v&0xf), byte(v >> 4), byte(v >> 12)}
	default:
		return []byte{0xc0 | byte(v&0xf), byte(v >> 4), byte(v >> 12), byte(v >> 20)}
	}
}

func vfEncName(s string) []byte {
	var pre []byte
	for len(s) > 0 && (s[0] == '\\' || s[0] == '^') {
		pre = append(pre, s[0])
		s = s[1:]
	}
	var segs []string
	if s != "" {
		segs = strings.Split(s, ".")
	}
	out := pre
	switch len(segs) {
	case 0:
		out = append(out, 0)
	case 1:
		out = append(out, segs[0]...)
	case 2:
		out = append(out, 0x2e)
		out = append(out, segs[0]...)
		out = append(out, segs[1]...)
	default:
		out = append(out, 0x2f, byte(len(segs)))
		for _, sg := range segs {
			out = append(out, sg...)
		}
	}
	return out
}

type vfEncCfg struct{ pkgForce int }

func (e vfEncCfg) pkg(op []byte, body []byte) []byte {
	return append(append(append([]byte{}, op...), vfEncPkgLen(len(body), e.pkgForce)...), body...)
}
func (e vfEncCfg) list(ns []*vfN) []byte {
	var b []byte
	for _, n := range ns {
		b = append(b, e.enc(n)...)
	}
	return b
}
func (e vfEncCfg) enc(n *vfN) []byte {
	switch n.K {
	case "Scope":
		return e.pkg([]byte{0x10}, append(vfEncName(n.Name), e.list(n.C)...))
	case "Device":
		return e.pkg([]byte{0x5b, 0x82}, append(vfEncName(n.Name), e.list(n.C)...))
	case "ThermalZone":
		return e.pkg([]byte{0x5b, 0x85}, append(vfEncName(n.Name), e.list(n.C)...))
	case "Processor":
		return e.pkg([]byte{0x5b, 0x83}, append(append(vfEncName(n.Name), 1, 0x10, 0x04, 0, 0, 6), e.list(n.C)...))
	case "PowerRes":
		return e.pkg([]byte{0x5b, 0x84}, append(append(vfEncName(n.Name), 1, 2, 0), e.list(n.C)...))
	case "Method":
		return e.pkg([]byte{0x14}, append(append(vfEncName(n.Name), byte(n.I)), e.list(n.C)...))
	case "Name":
		return append(append([]byte{0x08}, vfEncName(n.Name)...), e.enc(n.C[0])...)
	case "Mutex":
		return append(append([]byte{0x5b, 0x01}, vfEncName(n.Name)...), byte(n.I))
	case "Event":
		return append([]byte{0x5b, 0x02}, vfEncName(n.Name)...)
	case "OpRegion":
		return append(append(append([]byte{0x5b, 0x80}, vfEncName(n.Name)...), 1), append(e.enc(n.C[0]), e.enc(n.C[1])...)...)
	case "Field":
		body := append(vfEncName(n.Name), byte(n.I))
		for _, f := range n.C { // K=="F": named field name S width I ; K=="R": reserved width
			if f.K == "F" {
				body = append(append(body, f.S...), vfEncRawLen(int(f.I))...)
			} else {
				body = append(append(body, 0), vfEncRawLen(int(f.I))...)
			}
		}
		return e.pkg([]byte{0x5b, 0x81}, body)
	case "Int":
		switch {
		case n.I < 1<<8:
			return []byte{0x0a, byte(n.I)}
		case n.I < 1<<16:
			return []byte{0x0b, byte(n.I), byte(n.I >> 8)}
		case n.I < 1<<32:
			return []byte{0x0c, byte(n.I), byte(n.I >> 8), byte(n.I >> 16), byte(n.I >> 24)}
		default:
			b := []byte{0x0e}
			for i := 0; i < 8; i++ {
				b = append(b, byte(n.I>>(8*uint(i))))
			}
			return b
		}
	case "Zero":
		return []byte{0}
	case "One":
		return []byte{1}
	case "Ones":
		return []byte{0xff}
	case "Str":
		return append(append([]byte{0x0d}, n.S...), 0)
	case "Buf":
		return e.pkg([]byte{0x11}, append(e.enc(&vfN{K: "Int", I: uint64(len(n.S))}), n.S...))
	case "Pkg":
		return e.pkg([]byte{0x12}, append([]byte{byte(len(n.C))}, e.list(n.C)...))
	case "Local":
		return []byte{0x60 + byte(n.I)}
	case "Arg":
		return []byte{0x68 + byte(n.I)}
	case "Return":
		return append([]byte{0xa4}, e.enc(n.C[0])...)
	case "Store":
		return append(append([]byte{0x70}, e.enc(n.C[0])...), e.enc(n.C[1])...)
	case "Add":
		return append(append(append([]byte{0x72}, e.enc(n.C[0])...), e.enc(n.C[1])...), e.enc(n.C[2])...)
	case "Call":
		return append(vfEncName(n.Name), e.list(n.C)...)
	case "If":
		return e.pkg([]byte{0xa0}, append(e.enc(n.C[0]), e.list(n.C[1:])...))
	case "Else":
		return e.pkg([]byte{0xa1}, e.list(n.C))
	case "While":
		return e.pkg([]byte{0xa2}, append(e.enc(n.C[0]), e.list(n.C[1:])...))
	case "NullTarget":
		return []byte{0}
	case "Op": // a generic operator: S holds the opcode bytes in hex, C its arguments in grammar order
		code, err := hex.DecodeString(n.S)
		if err != nil {
			panic("bad Op code " + n.S)
		}
		return append(code, e.list(n.C)...)
	}
	panic("enc: " + n.K)
}

// ---------- reference namespace ----------
type vfRefObj struct {
	kind  string
	node  *vfN
	calls []vfRefCall // for methods
}
type vfRefCall struct {
	target string
	nargs  int
}
type vfRefNS struct {
	objs map[string]*vfRefObj // abs path "\A.B" ; root is "\"
	err  string
	// structural predicates of the two known root causes (C11 K1/K2), computed on the program
	moduleCalls []vfRefCall // method invocations in module-level code (outside any method)
	k1 bool // a name path with >=2 segments whose non-final segment is a Device/Method/ThermalZone/Processor/PowerResource
	k2 bool // a '^'-prefixed declaration whose innermost enclosing scope is such an object
}

// notePath records the K1 predicate: a *lookup* that has to descend through a
// scoped object. For a Scope target or a call the whole path is looked up; for
// a declaration only its prefix is (the last segment is the new name).
func (r *vfRefNS) notePath(cur []string, name string, isDecl bool) {
	bare := strings.TrimLeft(name, "\\^")
	if !strings.Contains(bare, ".") {
		return
	}
	segs, ok := r.resolveDecl(cur, name)
	if !ok {
		return
	}
	nseg := len(strings.Split(bare, "."))
	end := len(segs) // exclusive bound of the looked-up path
	if isDecl {
		end--
	}
	// non-final segments of the looked-up path that were written in the name
	for i := len(segs) - nseg + 1; i < end; i++ {
		if o, ok := r.objs[vfJoinPath(segs[:i])]; ok && vfScopedKinds[o.kind] {
			r.k1 = true
		}
	}
}

func (r *vfRefNS) noteCaret(cur []string, name string) {
	if strings.HasPrefix(name, "^") {
		if o, ok := r.objs[vfJoinPath(cur)]; ok && vfScopedKinds[o.kind] {
			r.k2 = true
		}
	}
}

var vfScopedKinds = map[string]bool{"Device": true, "ThermalZone": true, "Processor": true, "PowerRes": true, "Method": true}
var vfNamedKinds = map[string]bool{"Device": true, "ThermalZone": true, "Processor": true, "PowerRes": true, "Method": true, "Name": true, "Mutex": true, "Event": true, "OpRegion": true}

func vfJoinPath(segs []string) string { return "\\" + strings.Join(segs, ".") }

// resolve a declaration/scope name relative to cur; returns segs of the target path
func (r *vfRefNS) resolveDecl(cur []string, name string) ([]string, bool) {
	if strings.HasPrefix(name, "\\") {
		name = name[1:]
		if name == "" {
			return nil, true
		}
		return strings.Split(name, "."), true
	}
	base := append([]string{}, cur...)
	for strings.HasPrefix(name, "^") {
		if len(base) == 0 {
			return nil, false
		}
		base = base[:len(base)-1]
		name = name[1:]
	}
	if name == "" {
		return base, true
	}
	return append(base, strings.Split(name, ".")...), true
}

// lookup an existing object using search rules (for Scope targets and calls)
func (r *vfRefNS) lookup(cur []string, name string) (string, bool) {
	if !strings.ContainsAny(name, "\\^.") {
		for i := len(cur); i >= 0; i-- {
			p := vfJoinPath(append(append([]string{}, cur[:i]...), name))
			if _, ok := r.objs[p]; ok {
				return p, true
			}
		}
		return "", false
	}
	segs, ok := r.resolveDecl(cur, name)
	if !ok {
		return "", false
	}
	p := vfJoinPath(segs)
	_, ok = r.objs[p]
	return p, ok
}

func (r *vfRefNS) declare(cur []string, ns []*vfN, pass int, curMethod *vfRefObj) {
	for _, n := range ns {
		switch {
		case n.K == "Scope":
			if pass == 2 {
				r.notePath(cur, n.Name, false)
				r.noteCaret(cur, n.Name)
			}
			p, ok := r.lookup(cur, n.Name)
			if !ok {
				if pass == 2 {
					r.err = "scope target missing: " + n.Name
				}
				continue
			}
			segs := strings.Split(strings.TrimPrefix(p, "\\"), ".")
			if p == "\\" {
				segs = nil
			}
			r.declare(segs, n.C, pass, nil)
		case vfNamedKinds[n.K]:
			if pass == 2 {
				r.notePath(cur, n.Name, true)
				r.noteCaret(cur, n.Name)
			}
			segs, ok := r.resolveDecl(cur, n.Name)
			if !ok {
				r.err = "bad decl " + n.Name
				continue
			}
			p := vfJoinPath(segs)
			if pass == 2 {
				if _, ok := r.objs[p]; !ok {
					r.err = "declaration " + n.Name + " names a scope that does not exist"
					continue
				}
			}
			if pass == 1 {
				parent := vfJoinPath(segs[:len(segs)-1])
				if _, ok := r.objs[parent]; !ok && len(segs) > 1 {
					continue
				} // parent not yet known; retry next sweep
				if prev, dup := r.objs[p]; !dup {
					r.objs[p] = &vfRefObj{kind: n.K, node: n}
				} else if prev.node != n {
					r.err = "duplicate declaration of " + p // AE_ALREADY_EXISTS: not a well-formed program
				}
			}
			if vfScopedKinds[n.K] {
				if _, ok := r.objs[p]; ok {
					var m *vfRefObj
					if n.K == "Method" {
						m = r.objs[p]
					}
					r.declare(segs, n.C, pass, m)
				}
			}
		case n.K == "Field":
			if pass == 1 {
				off := uint64(0)
				for _, f := range n.C {
					if f.K == "F" {
						f.Off = off
						r.objs[vfJoinPath(append(append([]string{}, cur...), f.S))] = &vfRefObj{kind: "FieldUnit", node: f}
					}
					off += f.I
				}
			}
		case (n.K == "If" || n.K == "Else" || n.K == "While") && curMethod == nil:
			r.declare(cur, n.C, pass, nil)
		default:
			if pass == 2 && curMethod != nil {
				r.collectCalls(cur, n, curMethod)
			} else if pass == 2 {
				tmp := &vfRefObj{}
				r.collectCalls(cur, n, tmp)
				r.moduleCalls = append(r.moduleCalls, tmp.calls...)
			}
		}
	}
}
func (r *vfRefNS) collectCalls(cur []string, n *vfN, m *vfRefObj) {
	if n.K == "Call" {
		r.notePath(cur, n.Name, false)
		r.noteCaret(cur, n.Name)
		p, ok := r.lookup(cur, n.Name)
		if ok && r.objs[p].kind == "Method" {
			m.calls = append(m.calls, vfRefCall{p, len(n.C)})
		}
	}
	for _, c := range n.C {
		r.collectCalls(cur, c, m)
	}
}
func vfBuildRef(tables [][]*vfN) *vfRefNS {
	r := &vfRefNS{objs: map[string]*vfRefObj{"\\": {kind: "Root"}}}
	for _, s := range []string{"_GPE", "_PR_", "_SB_", "_SI_", "_TZ_"} {
		r.objs["\\"+s] = &vfRefObj{kind: "DefScope"}
	}
	for _, t := range tables {
		for i := 0; i < 6; i++ {
			r.declare(nil, t, 1, nil)
		} // sweeps until fixpoint (forward scopes)
		r.declare(nil, t, 2, nil)
	}
	return r
}

// ---------- tree checker ----------
var vfKindOp = map[string]uint16{"Device": pOpDevice, "ThermalZone": pOpThermalZone, "Processor": pOpProcessor, "PowerRes": pOpPowerRes, "Method": pOpMethod, "Name": pOpName, "Mutex": pOpMutex, "Event": pOpEvent, "OpRegion": pOpOpRegion, "FieldUnit": pOpIntNamedField}

func vfScopeChildren(t *ObjectTree, o *Object) []*Object {
	var out []*Object
	container := o
	if o.opcode != pOpIntScopeBlock {
		container = nil
		for i := o.firstArgIndex; i != InvalidIndex; i = t.ObjectAt(i).nextSiblingIndex {
			if c := t.ObjectAt(i); c.opcode == pOpIntScopeBlock {
				container = c
				break
			}
		}
		if container == nil {
			return nil
		}
	}
	for i := container.firstArgIndex; i != InvalidIndex; i = t.ObjectAt(i).nextSiblingIndex {
		out = append(out, t.ObjectAt(i))
	}
	return out
}
func vfResolveAbs(t *ObjectTree, path string) *Object {
	cur := t.ObjectAt(0)
	if path == "\\" {
		return cur
	}
	for _, seg := range strings.Split(path[1:], ".") {
		var next *Object
		for _, c := range vfScopeChildren(t, cur) {
			if string(c.name[:]) == seg {
				next = c
				break
			}
		}
		if next == nil {
			return nil
		}
		cur = next
	}
	return cur
}
func vfAbsPathOf(t *ObjectTree, o *Object) string {
	var segs []string
	for cur := o; cur != nil && cur.index != 0; {
		if cur.opcode != pOpIntScopeBlock || cur.name != [4]byte{} {
			if pOpcodeTable[cur.infoIndex].flags&pOpFlagNamed != 0 && !(cur.opcode == pOpIntScopeBlock && cur.name == [4]byte{}) {
				segs = append([]string{string(cur.name[:])}, segs...)
			}
		}
		if cur.parentIndex == InvalidIndex {
			return "DETACHED"
		}
		cur = t.ObjectAt(cur.parentIndex)
	}
	return vfJoinPath(segs)
}
func vfCollectTreeCalls(t *ObjectTree, o *Object, out *[]vfRefCall) {
	if o.opcode == pOpIntMethodCall {
		tgt := t.ObjectAt(o.value.(uint32))
		*out = append(*out, vfRefCall{vfAbsPathOf(t, tgt), int(t.NumArgs(o))})
	}
	for i := o.firstArgIndex; i != InvalidIndex; i = t.ObjectAt(i).nextSiblingIndex {
		vfCollectTreeCalls(t, t.ObjectAt(i), out)
	}
}

func vfParseAll(payloads [][]byte) (*ObjectTree, string) {
	tree := NewObjectTree()
	tree.CreateDefaultScopes(0)
	var w bytes.Buffer
	p := NewParser(&w, tree)
	var keep [][]byte
	for i, data := range payloads {
		headerLen := unsafe.Sizeof(table.SDTHeader{})
		stream := make([]byte, int(headerLen)+len(data))
		keep = append(keep, stream)
		copy(stream[headerLen:], data)
		header := (*table.SDTHeader)(unsafe.Pointer(&stream[0]))
		header.Length = uint32(len(stream))
		var pan interface{}
		var err error
		func() {
			defer func() { pan = recover() }()
			if e := p.ParseAML(uint8(i+1), "T", header); e != nil {
				err = e
			}
		}()
		if pan != nil {
			return tree, fmt.Sprint("panic: ", pan)
		}
		if err != nil {
			return tree, "parse error: " + strings.TrimSpace(w.String())
		}
	}
	_ = keep
	return tree, ""
}

// vfFindByteList returns the bytes of the first byte-list below o (buffers are parsed as deferred blocks).
func vfFindByteList(t *ObjectTree, o *Object) ([]byte, bool) {
	if o == nil {
		return nil, false
	}
	if o.opcode == pOpIntByteList {
		b, ok := o.value.([]byte)
		return b, ok
	}
	for i := o.firstArgIndex; i != InvalidIndex; i = t.ObjectAt(i).nextSiblingIndex {
		if b, ok := vfFindByteList(t, t.ObjectAt(i)); ok {
			return b, true
		}
	}
	return nil, false
}

// vfCheckResult is the outcome of comparing a parsed program with its reference namespace.
type vfCheckResult struct {
	Skip  string // the reference rejects the program as ill-formed (C12 territory)
	Class string // "" = agrees
	Msg   string
	Ref   *vfRefNS
}

// vfCheckProgram encodes the tables, parses them with the real parser and
// compares the resulting namespace with the reference.
func vfCheckProgram(tables [][]*vfN, cfg vfEncCfg) vfCheckResult {
	ref := vfBuildRef(tables)
	if ref.err != "" {
		return vfCheckResult{Skip: ref.err, Ref: ref}
	}
	var payloads [][]byte
	for _, t := range tables {
		payloads = append(payloads, cfg.list(t))
	}
	tree, perr := vfParseAll(payloads)
	if perr != "" {
		class := "parse-failed"
		if strings.HasPrefix(perr, "panic") {
			class = "panic"
		}
		return vfCheckResult{Class: class, Msg: perr, Ref: ref}
	}
	fail := func(class, f string, a ...interface{}) vfCheckResult {
		return vfCheckResult{Class: class, Msg: fmt.Sprintf(f, a...), Ref: ref}
	}
	paths := make([]string, 0, len(ref.objs))
	for p := range ref.objs {
		paths = append(paths, p)
	}
	sort.Strings(paths)
	for _, p := range paths {
		ro := ref.objs[p]
		o := vfResolveAbs(tree, p)
		if o == nil {
			return fail("object-missing", "no object at %s (ACPI scoping rules place a %s there)", p, ro.kind)
		}
		if op, ok := vfKindOp[ro.kind]; ok && o.opcode != op {
			return fail("wrong-kind", "object %s is a %s, declared as %s", p, pOpcodeName(o.opcode), ro.kind)
		}
		switch ro.kind {
		case "Method":
			if fl := tree.ArgAt(o, 1); fl == nil || fl.value.(uint64)&7 != ro.node.I {
				return fail("method-argc", "method %s does not carry its declared argument count %d", p, ro.node.I)
			}
			var got []vfRefCall
			vfCollectTreeCalls(tree, o, &got)
			if fmt.Sprint(got) != fmt.Sprint(ro.calls) {
				return fail("method-calls", "method %s: invocations found in the tree %v, in the program %v (target, number of arguments attached)", p, got, ro.calls)
			}
		case "Name":
			v := tree.ArgAt(o, 1)
			want := ro.node.C[0]
			switch want.K {
			case "Int":
				if v == nil || v.value != interface{}(want.I) {
					return fail("wrong-value", "Name %s carries %v, encoded constant %#x", p, vfValue(v), want.I)
				}
			case "Zero", "One", "Ones":
				wantOp := map[string]uint16{"Zero": pOpZero, "One": pOpOne, "Ones": pOpOnes}[want.K]
				if v == nil || v.opcode != wantOp {
					return fail("wrong-value", "Name %s does not carry the constant %s", p, want.K)
				}
			case "Str":
				if v == nil {
					return fail("wrong-value", "Name %s has no value", p)
				}
				if b, ok := v.value.([]byte); !ok || string(b) != want.S {
					return fail("wrong-value", "Name %s carries string %q, encoded %q", p, b, want.S)
				}
			case "Buf":
				b, ok := vfFindByteList(tree, v)
				if !ok || string(b) != want.S {
					return fail("wrong-value", "Name %s carries buffer bytes %x, encoded %x", p, b, want.S)
				}
			case "Pkg":
				if v == nil || v.opcode != pOpPackage {
					return fail("wrong-value", "Name %s does not carry a package", p)
				}
			}
		case "Mutex":
			if v := tree.ArgAt(o, 1); v == nil || v.value != interface{}(ro.node.I) {
				return fail("wrong-value", "Mutex %s sync level %v, encoded %d", p, vfValue(v), ro.node.I)
			}
		case "FieldUnit":
			fe, ok := o.value.(*fieldElement)
			if !ok {
				return fail("wrong-value", "field unit %s has no field element", p)
			}
			if fe.offset != uint32(ro.node.Off) || fe.width != uint32(ro.node.I) {
				return fail("field-layout", "field unit %s has offset %d width %d, encoded offset %d width %d", p, fe.offset, fe.width, ro.node.Off, ro.node.I)
			}
		}
	}
	// every method invocation anywhere in the tree (module-level code included) has its declared number of arguments attached
	var allTree, allRef []string
	var tc []vfRefCall
	vfCollectTreeCalls(tree, tree.ObjectAt(0), &tc)
	for _, c := range tc {
		allTree = append(allTree, fmt.Sprintf("%s/%d", c.target, c.nargs))
	}
	for _, ro := range ref.objs {
		for _, c := range ro.calls {
			allRef = append(allRef, fmt.Sprintf("%s/%d", c.target, c.nargs))
		}
	}
	for _, c := range ref.moduleCalls {
		allRef = append(allRef, fmt.Sprintf("%s/%d", c.target, c.nargs))
	}
	sort.Strings(allTree)
	sort.Strings(allRef)
	if fmt.Sprint(allTree) != fmt.Sprint(allRef) {
		return fail("method-calls", "method invocations in the tree %v, in the program %v (target/arguments attached)", allTree, allRef)
	}
	// no named object may appear at a path the reference does not contain
	for _, o := range tree.objPool {
		if o.opcode == pOpIntFreedObject || o.index == 0 {
			continue
		}
		if pOpcodeTable[o.infoIndex].flags&pOpFlagNamed == 0 || o.name == [amlNameLen]byte{} {
			continue
		}
		if o.opcode == pOpScope {
			return fail("unresolved-scope", "a Scope directive for %q was left unresolved in the tree", o.name[:])
		}
		ap := vfAbsPathOf(tree, o)
		if _, ok := ref.objs[ap]; !ok {
			return fail("object-at-wrong-path", "object %q (%s) sits at %s where the program declares nothing", o.name[:], pOpcodeName(o.opcode), ap)
		}
	}
	return vfCheckResult{Ref: ref}
}

func vfValue(o *Object) interface{} {
	if o == nil {
		return "<nil>"
	}
	return o.value
}
