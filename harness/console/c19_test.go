//go:build verif
// +build verif

package console

// C19 — console drivers paint exactly the addressed cells, never outside the
// framebuffer. Full product of console geometries x argument boundary values
// per operation on the real VesaFbConsole and VgaTextConsole, against a
// pixel-level / cell-level reference. The framebuffer is an exactly sized Go
// slice, so any access outside it is a bounds panic.

import (
	"fmt"
	"image/color"
	"io"
	"testing"
	"unsafe"

	"github.com/ProjectSerenity/firefly/kernel"
	"github.com/ProjectSerenity/firefly/kernel/mm"
	"github.com/ProjectSerenity/firefly/kernel/mm/vmm"

	"github.com/ProjectSerenity/firefly/kernel/device/video/console/font"
	"github.com/ProjectSerenity/firefly/kernel/internal/verifrt"
	"github.com/ProjectSerenity/firefly/kernel/multiboot"
)

// vfKeepAlive holds the backing array of the mapping handed to the last "init-ok" (the driver only keeps an interior pointer)
var vfKeepAlive [][]byte

func vfSynthFont(w, h uint32) *font.Font {
	bpr := (w + 7) / 8
	f := &font.Font{Name: fmt.Sprintf("synth%dx%d", w, h), GlyphWidth: w, GlyphHeight: h, BytesPerRow: bpr, Data: make([]byte, 256*bpr*h)}
	for i := range f.Data {
		f.Data[i] = byte(i*37 + 11)
	}
	// the space glyph is blank in every shipped font; the terminal relies on it (Fill == drawing spaces)
	for i := uint32(0x20) * bpr * h; i < uint32(0x21)*bpr*h; i++ {
		f.Data[i] = 0
	}
	return f
}

type vfFbCfg struct {
	Cols  uint32 `json:"cols"`
	Rows  uint32 `json:"rows"`
	Font  string `json:"font"`
	Bpp   uint8  `json:"bpp"`
	Mask  string `json:"mask"` // 565 555 rgb888 bgr888
	Pad   uint32 `json:"pad"`
	Logo  uint32 `json:"logo"`
	Rem   uint32 `json:"rem"`
	Dirty bool   `json:"dirty"` // pre-state: a distinguishing Write in every cell
}

var vfMasks = map[string]*multiboot.FramebufferRGBColorInfo{
	"565":    {RedPosition: 11, RedMaskSize: 5, GreenPosition: 5, GreenMaskSize: 6, BluePosition: 0, BlueMaskSize: 5},
	"555":    {RedPosition: 10, RedMaskSize: 5, GreenPosition: 5, GreenMaskSize: 5, BluePosition: 0, BlueMaskSize: 5},
	"rgb888": {RedPosition: 16, RedMaskSize: 8, GreenPosition: 8, GreenMaskSize: 8, BluePosition: 0, BlueMaskSize: 8},
	"bgr888": {RedPosition: 0, RedMaskSize: 8, GreenPosition: 8, GreenMaskSize: 8, BluePosition: 16, BlueMaskSize: 8},
}

var vfFontCache = map[string]*font.Font{}

func vfFont(name string) *font.Font {
	if f, ok := vfFontCache[name]; ok {
		return f
	}
	var f *font.Font
	switch name {
	case "synth8x2":
		f = vfSynthFont(8, 2)
	case "synth9x2":
		f = vfSynthFont(9, 2)
	case "synth16x1":
		f = vfSynthFont(16, 1)
	case "synth12x3":
		f = vfSynthFont(12, 3)
	default:
		f = font.FindByName(name)
	}
	if f == nil {
		panic("verif: font not found: " + name)
	}
	vfFontCache[name] = f
	return f
}

func (c vfFbCfg) String() string {
	return fmt.Sprintf("%dx%d %s bpp%d/%s pad%d logo%d rem%d dirty=%v", c.Cols, c.Rows, c.Font, c.Bpp, c.Mask, c.Pad, c.Logo, c.Rem, c.Dirty)
}

func vfMkFb(c vfFbCfg) *VesaFbConsole {
	f := vfFont(c.Font)
	w := c.Cols * f.GlyphWidth
	h := c.Rows*f.GlyphHeight + c.Logo + c.Rem
	bypp := uint32(c.Bpp+1) >> 3
	pitch := w*bypp + c.Pad
	cons := NewVesaFbConsole(w, h, c.Bpp, pitch, vfMasks[c.Mask], 0)
	cons.fb = make([]byte, h*pitch)
	for i := range cons.fb {
		cons.fb[i] = byte(i*7 + 3)
	}
	for y := uint32(0); y < h; y++ { // uniform padding pattern (a row copy that copies padding onto padding is not a change)
		for x := w * bypp; x < pitch; x++ {
			cons.fb[y*pitch+x] = 0x5A
		}
	}
	cons.loadDefaultPalette()
	cons.offsetY = c.Logo
	cons.SetFont(f)
	if c.Dirty {
		for y := uint32(1); y <= c.Rows; y++ {
			for x := uint32(1); x <= c.Cols; x++ {
				cons.Write(byte('A'+(x+3*y)%26), uint8(1+x%6), uint8(8+y%6), x, y)
			}
		}
	}
	return cons
}

func vfRefPack(c vfFbCfg, model []color.RGBA, idx uint8) []byte {
	if c.Bpp == 8 {
		return []byte{idx}
	}
	ci := vfMasks[c.Mask]
	rgba := model[idx]
	v := uint32(rgba.R>>(8-ci.RedMaskSize))<<ci.RedPosition | uint32(rgba.G>>(8-ci.GreenMaskSize))<<ci.GreenPosition | uint32(rgba.B>>(8-ci.BlueMaskSize))<<ci.BluePosition
	out := []byte{byte(v), byte(v >> 8), byte(v >> 16)}
	if (uint32(c.Bpp+1) >> 3) == 2 {
		return out[:2]
	}
	return out // three bytes are written, also at 32 bpp
}

type vfConsOp struct {
	Op    string `json:"op"` // write fill scroll
	X     uint32 `json:"x"`
	Y     uint32 `json:"y"`
	W     uint32 `json:"w"`
	H     uint32 `json:"h"`
	Ch    byte   `json:"ch"`
	Fg    uint8  `json:"fg"`
	Bg    uint8  `json:"bg"`
	Dir   int    `json:"dir"`
	Lines uint32 `json:"lines"`
	// Pal: a palette entry is redefined (SetPaletteColor) before the operation; the operation must then paint with the
	// colours as redefined (the reference keeps its own palette)
	Pal *vfPalOp `json:"palette_update,omitempty"`
	// Before: operations performed first (writes, fills, palette redefinitions); the checked operation must paint
	// correctly whatever came before it (state kept between operations - caches, scratch slots - is part of the console)
	Before []vfConsOp `json:"before,omitempty"`
}

type vfPalOp struct {
	Idx        uint8 `json:"index"`
	R, G, B, A uint8
}

type vf19Replay struct {
	Driver string    `json:"driver"` // vesa | vga
	Fb     *vfFbCfg  `json:"fb,omitempty"`
	Cols   uint32    `json:"cols,omitempty"`
	Rows   uint32    `json:"rows,omitempty"`
	Dirty  bool      `json:"dirty,omitempty"`
	Op     vfConsOp  `json:"op"`
}

// vf19StepBudget bounds the instrumented loop iterations of one console operation (deterministic watchdog).
const vf19StepBudget = 1000000

type vfRect struct{ x0, y0, x1, y1 uint32 } // pixel rectangle [x0,x1) x [y0,y1), absolute rows

// vfClip implements the statement: origin clamped into the grid, extent clipped at the right/bottom edge.
func vfClip(x, y, w, h, cols, rows uint32) (cx, cy, ex, ey uint32) {
	cx, cy = x, y
	if cx == 0 {
		cx = 1
	} else if cx > cols {
		cx = cols
	}
	if cy == 0 {
		cy = 1
	} else if cy > rows {
		cy = rows
	}
	e1, e2 := uint64(cx)+uint64(w), uint64(cy)+uint64(h) // exclusive, 1-based
	if e1 > uint64(cols)+1 {
		e1 = uint64(cols) + 1
	}
	if e2 > uint64(rows)+1 {
		e2 = uint64(rows) + 1
	}
	return cx, cy, uint32(e1), uint32(e2)
}

func vf19Fb(run *verifrt.Run, c vfFbCfg, op vfConsOp) {
	run.Case()
	report := func(class, msg string) {
		run.Violate(class, fmt.Sprintf("vesa %s %s", class, verifrt.JSONKey([]interface{}{c, op})), fmt.Sprintf("framebuffer console [%s] %s: %s", c, verifrt.JSONKey(op), msg), vf19Replay{Driver: "vesa", Fb: &c, Op: op})
	}
	f := vfFont(c.Font)
	cons := vfMkFb(c)
	if len(op.Before) > 0 {
		// a store through a framebuffer pointer that left the slice is a fatal fault, not a panic: attribute it
		verifrt.JournalJSON(vf19Replay{Driver: "vesa", Fb: &c, Op: op})
	}
	// the reference's own palette: the default one, as loaded, plus every redefinition made through the API
	model := make([]color.RGBA, len(cons.palette))
	for i, pc := range cons.palette {
		if pc != nil {
			model[i] = pc.(color.RGBA)
		}
	}
	for _, pre := range op.Before {
		var ppan interface{}
		func() {
			defer func() { ppan = recover() }()
			switch {
			case pre.Pal != nil:
				nc := color.RGBA{pre.Pal.R, pre.Pal.G, pre.Pal.B, pre.Pal.A}
				cons.SetPaletteColor(pre.Pal.Idx, nc)
				model[pre.Pal.Idx] = nc
			case pre.Op == "write":
				cons.Write(pre.Ch, pre.Fg, pre.Bg, pre.X, pre.Y)
			case pre.Op == "fill":
				cons.Fill(pre.X, pre.Y, pre.W, pre.H, pre.Fg, pre.Bg)
			case pre.Op == "init-fail":
				// a re-initialisation whose mapping request is refused; the caller handles the error and keeps
				// using the console, which still owns its framebuffer
				saved := mapRegionFn
				mapRegionFn = func(mm.Frame, uintptr, vmm.PageTableEntryFlag) (mm.Page, *kernel.Error) {
					return 0, &kernel.Error{Module: "verif", Message: "mapping refused"}
				}
				func() {
					defer func() { mapRegionFn = saved }()
					_ = cons.DriverInit(io.Discard)
				}()
			case pre.Op == "init-ok":
				// a successful re-initialisation onto a page-aligned mapping that shows the same memory content;
				// the default palette is loaded again
				size := len(cons.fb)
				raw := make([]byte, size+8192)
				off := int((4096 - uintptr(unsafe.Pointer(&raw[0]))&4095) & 4095)
				nb := raw[off : off+size : off+size]
				copy(nb, cons.fb)
				saved := mapRegionFn
				mapRegionFn = func(mm.Frame, uintptr, vmm.PageTableEntryFlag) (mm.Page, *kernel.Error) {
					return mm.PageFromAddress(uintptr(unsafe.Pointer(&nb[0]))), nil
				}
				func() {
					defer func() { mapRegionFn = saved }()
					if err := cons.DriverInit(io.Discard); err != nil {
						panic("verif: DriverInit failed with a mapping that was granted: " + err.Message)
					}
				}()
				vfKeepAlive = append(vfKeepAlive[:0], raw)
				for i, pc := range vfMkFb(c).palette {
					if pc != nil {
						model[i] = pc.(color.RGBA)
					}
				}
			}
		}()
		if ppan != nil {
			report("panic", fmt.Sprintf("an earlier operation of the sequence panicked: %v", ppan))
			return
		}
	}
	if op.Pal != nil {
		nc := color.RGBA{op.Pal.R, op.Pal.G, op.Pal.B, op.Pal.A}
		var ppan interface{}
		func() {
			defer func() { ppan = recover() }()
			cons.SetPaletteColor(op.Pal.Idx, nc)
		}()
		if ppan != nil {
			report("panic", fmt.Sprintf("SetPaletteColor panicked: %v", ppan))
			return
		}
		model[op.Pal.Idx] = nc
	}
	before := append([]byte(nil), cons.fb...)
	cols, rows, logo := c.Cols, c.Rows, c.Logo
	bypp := uint32(c.Bpp+1) >> 3
	w := cols * f.GlyphWidth
	h := rows*f.GlyphHeight + logo + c.Rem
	pitch := w*bypp + c.Pad
	var pan interface{}
	verifrt.SetBudget(vf19StepBudget, 0)
	func() {
		defer func() { pan = recover() }()
		switch op.Op {
		case "write":
			cons.Write(op.Ch, op.Fg, op.Bg, op.X, op.Y)
		case "fill":
			cons.Fill(op.X, op.Y, op.W, op.H, op.Fg, op.Bg)
		case "scroll":
			cons.Scroll(ScrollDir(op.Dir), op.Lines)
		}
	}()
	verifrt.SetBudget(0, 0)
	if be, ok := pan.(*verifrt.BudgetExceeded); ok {
		report("runaway-loop", fmt.Sprintf("the operation was still looping after %d loop iterations (a clipped operation on this console needs a few thousand)", be.Steps))
		return
	}
	if pan != nil {
		report("panic", fmt.Sprintf("panicked: %v (an access outside the framebuffer is a bounds panic here)", pan))
		return
	}
	var allowed []vfRect
	var expectPix func(px, py uint32) ([]byte, bool)
	switch op.Op {
	case "write":
		x, y := op.X, op.Y
		if x >= 1 && x <= cols && y >= 1 && y <= rows {
			allowed = []vfRect{{(x - 1) * f.GlyphWidth, logo + (y-1)*f.GlyphHeight, x * f.GlyphWidth, logo + y*f.GlyphHeight}}
			expectPix = func(px, py uint32) ([]byte, bool) {
				gx := px - (x-1)*f.GlyphWidth
				gy := py - logo - (y-1)*f.GlyphHeight
				b := f.Data[uint32(op.Ch)*f.BytesPerRow*f.GlyphHeight+gy*f.BytesPerRow+gx/8]
				if b&(0x80>>(gx%8)) != 0 {
					return vfRefPack(c, model, op.Fg), true
				}
				return vfRefPack(c, model, op.Bg), true
			}
		}
	case "fill":
		cx, cy, ex, ey := vfClip(op.X, op.Y, op.W, op.H, cols, rows)
		allowed = []vfRect{{(cx - 1) * f.GlyphWidth, logo + (cy-1)*f.GlyphHeight, (ex - 1) * f.GlyphWidth, logo + (ey-1)*f.GlyphHeight}}
		expectPix = func(px, py uint32) ([]byte, bool) { return vfRefPack(c, model, op.Bg), true }
	case "scroll":
		if op.Lines >= 1 && op.Lines <= rows {
			// the text area may change (vacated lines unconstrained); the logo rows may not
			allowed = []vfRect{{0, logo, w, h}}
		}
	}
	for y := uint32(0); y < h; y++ {
		for x := uint32(0); x < pitch; x++ {
			off := y*pitch + x
			in := false
			if x < w*bypp {
				px := x / bypp
				for _, r := range allowed {
					if px >= r.x0 && px < r.x1 && y >= r.y0 && y < r.y1 {
						in = true
					}
				}
			}
			if !in && cons.fb[off] != before[off] {
				where := "outside the addressed cells"
				if x >= w*bypp {
					where = "in the padding bytes between rows"
				} else if y < logo {
					where = "in the logo area"
				} else if y >= logo+rows*f.GlyphHeight {
					where = "below the cell grid"
				}
				report("painted-outside", fmt.Sprintf("byte at row %d offset %d (%s) changed %#x -> %#x", y, x, where, before[off], cons.fb[off]))
				return
			}
		}
	}
	if expectPix != nil {
		for _, r := range allowed {
			for py := r.y0; py < r.y1; py++ {
				for px := r.x0; px < r.x1; px++ {
					exp, _ := expectPix(px, py)
					off := py*pitch + px*bypp
					for k := range exp {
						if cons.fb[off+uint32(k)] != exp[k] {
							report("wrong-pixels", fmt.Sprintf("pixel (%d,%d) byte %d is %#x, expected %#x", px, py, k, cons.fb[off+uint32(k)], exp[k]))
							return
						}
					}
					if bypp == 4 && cons.fb[off+3] != before[off+3] {
						report("wrong-pixels", "the unused 4th byte of a 32-bpp pixel changed")
						return
					}
				}
			}
		}
	}
	if op.Op == "scroll" && op.Lines >= 1 && op.Lines <= rows {
		lines := op.Lines
		for L := uint32(0); L+lines < rows; L++ {
			for r := uint32(0); r < f.GlyphHeight; r++ {
				for xb := uint32(0); xb < w*bypp; xb++ {
					var dst, src uint32
					if ScrollDir(op.Dir) == ScrollDirUp {
						dst = (logo+L*f.GlyphHeight+r)*pitch + xb
						src = (logo+(L+lines)*f.GlyphHeight+r)*pitch + xb
					} else {
						dst = (logo+(L+lines)*f.GlyphHeight+r)*pitch + xb
						src = (logo+L*f.GlyphHeight+r)*pitch + xb
					}
					if cons.fb[dst] != before[src] {
						report("scroll-wrong", fmt.Sprintf("after scrolling by %d, text line %d pixel row %d byte %d does not hold what line %d held", lines, L, r, xb, L+lines))
						return
					}
				}
			}
		}
	}
}

func vf19Vga(run *verifrt.Run, cols, rows uint32, dirty bool, op vfConsOp) {
	run.Case()
	report := func(class, msg string) {
		run.Violate(class, fmt.Sprintf("vga %s %d %d %v %s", class, cols, rows, dirty, verifrt.JSONKey(op)), fmt.Sprintf("text console %dx%d %s: %s", cols, rows, verifrt.JSONKey(op), msg), vf19Replay{Driver: "vga", Cols: cols, Rows: rows, Dirty: dirty, Op: op})
	}
	cons := NewVgaTextConsole(cols, rows, 0)
	cons.fb = make([]uint16, cols*rows)
	for i := range cons.fb {
		cons.fb[i] = uint16(0x1100 + i*259)
	}
	if dirty {
		for y := uint32(1); y <= rows; y++ {
			for x := uint32(1); x <= cols; x++ {
				cons.Write(byte('a'+(x+5*y)%26), uint8(x%15), uint8(y%14), x, y)
			}
		}
	}
	before := append([]uint16(nil), cons.fb...)
	var pan interface{}
	verifrt.SetBudget(vf19StepBudget, 0)
	func() {
		defer func() { pan = recover() }()
		switch op.Op {
		case "write":
			cons.Write(op.Ch, op.Fg, op.Bg, op.X, op.Y)
		case "fill":
			cons.Fill(op.X, op.Y, op.W, op.H, op.Fg, op.Bg)
		case "scroll":
			cons.Scroll(ScrollDir(op.Dir), op.Lines)
		}
	}()
	verifrt.SetBudget(0, 0)
	if be, ok := pan.(*verifrt.BudgetExceeded); ok {
		report("runaway-loop", fmt.Sprintf("the operation was still looping after %d loop iterations (a clipped operation on this console needs a few thousand)", be.Steps))
		return
	}
	if pan != nil {
		report("panic", fmt.Sprintf("panicked: %v (an access outside the framebuffer is a bounds panic here)", pan))
		return
	}
	exp := append([]uint16(nil), before...)
	unconstrained := map[int]bool{}
	switch op.Op {
	case "write":
		if op.X >= 1 && op.X <= cols && op.Y >= 1 && op.Y <= rows {
			i := int((op.Y-1)*cols + op.X - 1)
			if op.Fg < 15 && op.Bg < 15 {
				exp[i] = (uint16(op.Bg)<<4|uint16(op.Fg))<<8 | uint16(op.Ch)
			} else {
				// colour indices >= 15 follow a fallback the statement does not define: only "the addressed cell, same character"
				unconstrained[i] = true
				if byte(cons.fb[i]) != op.Ch {
					report("wrong-cell", fmt.Sprintf("cell (%d,%d) holds character %#x, expected %#x", op.X, op.Y, byte(cons.fb[i]), op.Ch))
				}
			}
		}
	case "fill":
		cx, cy, ex, ey := vfClip(op.X, op.Y, op.W, op.H, cols, rows)
		for y := cy; y < ey; y++ {
			for x := cx; x < ex; x++ {
				exp[(y-1)*cols+x-1] = (uint16(op.Bg)<<4|uint16(op.Fg))<<8 | uint16(' ')
			}
		}
	case "scroll":
		if op.Lines >= 1 && op.Lines <= rows {
			n := op.Lines * cols
			for i := range exp {
				unconstrained[i] = true
			}
			if ScrollDir(op.Dir) == ScrollDirUp {
				for i := uint32(0); i+n < cols*rows; i++ {
					exp[i] = before[i+n]
					delete(unconstrained, int(i))
				}
			} else {
				for i := n; i < cols*rows; i++ {
					exp[i] = before[i-n]
					delete(unconstrained, int(i))
				}
			}
		}
	}
	for i := range exp {
		if !unconstrained[i] && cons.fb[i] != exp[i] {
			report("wrong-cell", fmt.Sprintf("cell (%d,%d) holds %#04x, expected %#04x", uint32(i)%cols+1, uint32(i)/cols+1, cons.fb[i], exp[i]))
			return
		}
	}
}

func vfArgs(dim uint32) []uint32 {
	vals := []uint32{0, 1, 2, dim - 1, dim, dim + 1, 1 << 31, 1<<32 - 2, 1<<32 - 1}
	var out []uint32
	seen := map[uint32]bool{}
	for _, v := range vals {
		if !seen[v] {
			seen[v] = true
			out = append(out, v)
		}
	}
	return out
}

func vf19Ops(cols, rows uint32, thorough bool) []vfConsOp {
	var ops []vfConsOp
	chars := []byte{0, 'A', 0xff}
	colours := [][2]uint8{{3, 12}, {0, 7}}
	if thorough {
		chars = []byte{0, 'A', 0x7f, 0xff, ' '}
		colours = [][2]uint8{{3, 12}, {0, 7}, {15, 14}, {255, 255}, {7, 15}}
	}
	for _, x := range vfArgs(cols) {
		for _, y := range vfArgs(rows) {
			for _, ch := range chars {
				for _, cl := range colours {
					ops = append(ops, vfConsOp{Op: "write", X: x, Y: y, Ch: ch, Fg: cl[0], Bg: cl[1]})
				}
			}
			// extents: the full boundary set around the corner origins, a reduced set elsewhere
			corner := (x <= 1 || x == cols || x == cols+1) && (y <= 1 || y == rows || y == rows+1)
			ws, hs := vfArgs(cols), vfArgs(rows)
			if !corner {
				ws, hs = []uint32{0, 1, cols, 1<<32 - 1}, []uint32{0, 1, rows, 1<<32 - 1}
			}
			for _, fw := range ws {
				for _, fh := range hs {
					ops = append(ops, vfConsOp{Op: "fill", X: x, Y: y, W: fw, H: fh, Fg: 3, Bg: 12})
				}
			}
		}
	}
	for dir := 0; dir < 2; dir++ {
		for _, l := range vfArgs(rows) {
			ops = append(ops, vfConsOp{Op: "scroll", Dir: dir, Lines: l})
		}
	}
	return ops
}

func TestVerifC19(t *testing.T) {
	run := verifrt.Start("C19")
	saved := portWriteByteFn
	defer func() { portWriteByteFn = saved }()
	portWriteByteFn = func(uint16, uint8) {}

	var rp vf19Replay
	if run.Replaying(&rp) {
		if rp.Driver == "vga" {
			vf19Vga(run, rp.Cols, rp.Rows, rp.Dirty, rp.Op)
		} else {
			vf19Fb(run, *rp.Fb, rp.Op)
		}
		run.Finish(true, "replay", "replay")
		return
	}
	type depth struct {
		bpp  uint8
		mask string
	}
	depths := []depth{{8, ""}, {15, "555"}, {16, "565"}, {24, "rgb888"}, {24, "bgr888"}, {32, "rgb888"}, {32, "bgr888"}}
	fonts := []string{"synth8x2", "synth9x2", "terminus8x16"}
	pads := []uint32{0, 5}
	logos := []uint32{0, 3}
	if run.Thorough() {
		fonts = []string{"synth8x2", "synth9x2", "synth16x1", "synth12x3", "terminus8x16", "terminus10x18", "terminus14x28"}
		pads = []uint32{0, 1, 5}
		logos = []uint32{0, 1, 3}
	}
	idx := 0
	for _, d := range depths {
		for _, fn := range fonts {
			for cols := uint32(1); cols <= 3; cols++ {
				for rows := uint32(1); rows <= 3; rows++ {
					idx++
					if !run.Mine(idx) {
						continue
					}
					big := fn == "terminus10x18" || fn == "terminus14x28" || fn == "terminus8x16"
					if big && (cols != rows || cols == 3 || (!run.Thorough() && d.bpp != 8 && d.bpp != 16 && d.bpp != 32)) {
						continue // the shipped fonts: 1x1 and 2x2 grids
					}
					ops := vf19Ops(cols, rows, run.Thorough() && !big)
					for _, pad := range pads {
						for _, logo := range logos {
							for _, rem := range []uint32{0, 1} {
								if rem >= vfFont(fn).GlyphHeight {
									continue
								}
								for _, dirty := range []bool{false, true} {
									if (big && (!dirty || pad != 0)) || (!run.Thorough() && !dirty) {
										continue
									}
									c := vfFbCfg{cols, rows, fn, d.bpp, d.mask, pad, logo, rem, dirty}
									for _, op := range ops {
										vf19Fb(run, c, op)
									}
									run.Distinct(c.String())
								}
							}
						}
					}
					run.Sample(map[string]interface{}{"driver": "vesa", "geometry": fmt.Sprintf("%dx%d %s bpp%d", cols, rows, fn, d.bpp), "ops": len(ops)})
				}
			}
		}
	}
	// a palette entry redefined first (a colour that packs differently, one that differs only below the mask
	// resolution, one that differs only in alpha, the same colour again), then painting with the redefined entry and
	// with entry 0
	for _, d := range depths {
		idx++
		if !run.Mine(idx) {
			continue
		}
		for _, fn := range []string{"synth8x2", "synth9x2"} {
			for _, dirty := range []bool{false, true} {
				c := vfFbCfg{2, 2, fn, d.bpp, d.mask, 5, 3, 0, dirty}
				probe := vfMkFb(c)
				for _, pi := range []uint8{0, 1, 7, 15, 255} {
					old, _ := probe.palette[pi].(color.RGBA)
					for _, nc := range []color.RGBA{{old.R ^ 0x80, old.G, old.B ^ 0x40, old.A}, {old.R ^ 1, old.G ^ 1, old.B ^ 1, old.A}, {old.R, old.G, old.B, old.A ^ 0xff}, old, {old.R ^ 2, old.G, old.B ^ 4, old.A ^ 1}} {
						pal := &vfPalOp{pi, nc.R, nc.G, nc.B, nc.A}
						for _, pr := range [][2]uint8{{0, pi}, {pi, 0}, {1, 0}, {0, 0}, {pi, pi}} {
							vf19Fb(run, c, vfConsOp{Op: "write", X: 1, Y: 2, Ch: 'A', Fg: pr[0], Bg: pr[1], Pal: pal})
							vf19Fb(run, c, vfConsOp{Op: "fill", X: 1, Y: 1, W: 2, H: 1, Fg: pr[0], Bg: pr[1], Pal: pal})
						}
					}
				}
			}
		}
	}
	// sequences: up to three earlier operations (writes, fills, palette redefinitions on entries c and 0) and then a
	// checked write or fill with those entries - state carried from one operation to the next
	for _, d := range depths {
		idx++
		if !run.Mine(idx) {
			continue
		}
		c := vfFbCfg{2, 2, "synth8x2", d.bpp, d.mask, 5, 3, 0, false}
		probe := vfMkFb(c)
		for _, ci := range []uint8{1, 7} {
			oc, _ := probe.palette[ci].(color.RGBA)
			o0, _ := probe.palette[0].(color.RGBA)
			pres := []vfConsOp{
				{Op: "write", X: 2, Y: 1, Ch: 'B', Fg: ci, Bg: 0}, {Op: "write", X: 2, Y: 1, Ch: 'B', Fg: 0, Bg: ci},
				{Op: "fill", X: 1, Y: 2, W: 1, H: 1, Bg: ci}, {Op: "fill", X: 1, Y: 2, W: 1, H: 1, Bg: 0},
				{Pal: &vfPalOp{ci, oc.R ^ 0x80, oc.G ^ 0x40, oc.B, oc.A}}, {Pal: &vfPalOp{0, o0.R ^ 0x40, o0.G, o0.B ^ 0x80, o0.A}},
				{Op: "init-fail"}, {Op: "init-ok"},
			}
			finals := []vfConsOp{
				{Op: "write", X: 1, Y: 1, Ch: 'A', Fg: ci, Bg: 0}, {Op: "write", X: 1, Y: 1, Ch: 'A', Fg: 0, Bg: ci},
				{Op: "fill", X: 2, Y: 2, W: 1, H: 1, Bg: ci}, {Op: "fill", X: 2, Y: 2, W: 1, H: 1, Bg: 0},
			}
			var rec func(cur []vfConsOp)
			rec = func(cur []vfConsOp) {
				if len(cur) > 0 {
					for _, f := range finals {
						f.Before = append([]vfConsOp(nil), cur...)
						vf19Fb(run, c, f)
					}
				}
				if len(cur) == 3 {
					return
				}
				for _, p := range pres {
					rec(append(cur, p))
				}
			}
			rec(nil)
		}
	}
	// text mode
	for cols := uint32(1); cols <= 4; cols++ {
		for rows := uint32(1); rows <= 4; rows++ {
			idx++
			if !run.Mine(idx) {
				continue
			}
			ops := vf19Ops(cols, rows, true)
			for _, dirty := range []bool{false, true} {
				for _, op := range ops {
					vf19Vga(run, cols, rows, dirty, op)
				}
				run.Distinct(fmt.Sprintf("vga %dx%d %v", cols, rows, dirty))
			}
		}
	}
	if run.Shard == 0 {
		for _, op := range vf19Ops(80, 25, false) {
			vf19Vga(run, 80, 25, true, op)
		}
	}
	run.Finish(true, "framebuffer: grids 1..3 x 1..3, fonts {8x2, 9x2, 16x1 synthetic, shipped 8x16; thorough: 12x3 and all three shipped fonts}, depths {8,15,16,24,32} with mask layouts {5-5-5, 5-6-5, RGB888, BGR888}, pitch padding {0,(1),5}, logo rows {0,(1),3}, remainder rows {0,1}, pristine and fully written pre-states; every uint32 argument from {0,1,2,dim-1,dim,dim+1,2^31,2^32-2,2^32-1}; text mode grids 1..4 x 1..4 and 80x25; full product per operation (Write, Fill, Scroll up/down); Write/Fill after a palette entry was redefined (5 entries x 5 new colours incl. same-packing ones) against the reference's own palette; every sequence of <=3 earlier writes/fills/palette redefinitions/re-initialisations (mapping granted, mapping refused) followed by a checked write or fill",
		"distinct = console configuration; each case compares every byte of the framebuffer with the pixel/cell reference")
}
