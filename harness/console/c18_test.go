//go:build verif
// +build verif

package console_test

// C18 (shipped drivers) — an active terminal and its console always show the
// same thing. The real tty.VT drives the real VgaTextConsole / VesaFbConsole
// over host framebuffers; after every event of every history up to the depth
// bound the console is compared pixel for pixel with the reference rendering
// of the reference terminal's viewport. (The deep, fixed-point part of C18
// runs in package tty against a grid console.)

import (
	"fmt"
	"testing"

	"github.com/ProjectSerenity/firefly/kernel/device/tty"
	"github.com/ProjectSerenity/firefly/kernel/device/video/console"
	"github.com/ProjectSerenity/firefly/kernel/device/video/console/font"
	"github.com/ProjectSerenity/firefly/kernel/internal/verifrt"
	"github.com/ProjectSerenity/firefly/kernel/multiboot"
)

func vfSynth(w, h uint32) *font.Font {
	bpr := (w + 7) / 8
	f := &font.Font{Name: fmt.Sprintf("synth%dx%d", w, h), GlyphWidth: w, GlyphHeight: h, BytesPerRow: bpr, Data: make([]byte, 256*bpr*h)}
	for i := range f.Data {
		f.Data[i] = byte(i*37 + 11)
	}
	for i := uint32(0); i < bpr*h; i++ {
		f.Data[0x20*bpr*h+i] = 0 // the space glyph is blank, as in every shipped font
	}
	return f
}

type vfCell struct{ ch, fg, bg uint8 }

// reference terminal (as in C17): only what the viewport shows matters here
type vfRef struct {
	w, h, sb   uint32
	tab        uint8
	buf        []vfCell
	cx, cy, vy uint32
}

func vfNewRef(w, h, sb uint32, tab uint8) *vfRef {
	r := &vfRef{w: w, h: h, sb: sb, tab: tab, cx: 1, cy: 1, buf: make([]vfCell, w*(h+sb))}
	for i := range r.buf {
		r.buf[i] = vfCell{' ', 7, 0}
	}
	return r
}
func (r *vfRef) put(b byte, adv bool) {
	r.buf[(r.vy+r.cy-1)*r.w+r.cx-1] = vfCell{b, 7, 0}
	if adv {
		r.cx++
		if r.cx > r.w {
			r.lf()
		}
	}
}
func (r *vfRef) lf() {
	r.cx = 1
	if r.cy < r.h {
		r.cy++
		return
	}
	if r.vy+r.h < r.h+r.sb {
		r.vy++
		return
	}
	for y := r.vy; y < r.vy+r.h-1; y++ {
		copy(r.buf[y*r.w:(y+1)*r.w], r.buf[(y+1)*r.w:(y+2)*r.w])
	}
	for x := uint32(0); x < r.w; x++ {
		r.buf[(r.vy+r.h-1)*r.w+x] = vfCell{' ', 7, 0}
	}
}
func (r *vfRef) write(b byte) {
	switch b {
	case '\r':
		r.cx = 1
	case '\n':
		r.lf()
	case '\b':
		if r.cx > 1 {
			r.cx--
			r.put(' ', false)
		}
	case '\t':
		for i := uint8(0); i < r.tab; i++ {
			r.put(' ', true)
		}
	default:
		r.put(b, true)
	}
}

type vf18Cfg struct {
	Bpp  uint8  `json:"bpp"` // 0 = text mode
	Mask string `json:"mask"`
	Font string `json:"font"`
	W    uint32 `json:"cols"`
	H    uint32 `json:"rows"`
	SB   uint32 `json:"scrollback"`
	Pad  uint32 `json:"pad"`
	Logo uint32 `json:"logo"`
	Rem  uint32 `json:"rem"`
}

type vf18Replay struct {
	Cfg    vf18Cfg `json:"cfg"`
	Events string  `json:"events"` // bytes; 'A' = activate, 'I' = deactivate
}

var vfMasks = map[string]*multiboot.FramebufferRGBColorInfo{
	"565":    {RedPosition: 11, RedMaskSize: 5, GreenPosition: 5, GreenMaskSize: 6, BluePosition: 0, BlueMaskSize: 5},
	"555":    {RedPosition: 10, RedMaskSize: 5, GreenPosition: 5, GreenMaskSize: 5, BluePosition: 0, BlueMaskSize: 5},
	"rgb888": {RedPosition: 16, RedMaskSize: 8, GreenPosition: 8, GreenMaskSize: 8, BluePosition: 0, BlueMaskSize: 8},
	"bgr888": {RedPosition: 0, RedMaskSize: 8, GreenPosition: 8, GreenMaskSize: 8, BluePosition: 16, BlueMaskSize: 8},
}

var vfFonts = map[string]*font.Font{}

func vfFont(name string) *font.Font {
	if f, ok := vfFonts[name]; ok {
		return f
	}
	var f *font.Font
	switch name {
	case "synth8x2":
		f = vfSynth(8, 2)
	case "synth9x2":
		f = vfSynth(9, 2)
	default:
		f = font.FindByName(name)
	}
	if f == nil {
		panic("verif: font not found " + name)
	}
	vfFonts[name] = f
	return f
}

type vf18World struct {
	cfg     vf18Cfg
	vt      *tty.VT
	ref     *vfRef
	vga     []uint16
	fb      []byte
	cons    *console.VesaFbConsole
	f       *font.Font
	bypp    uint32
	pitch   uint32
	initial []byte
	initVga []uint16
}

func vf18Make(c vf18Cfg) *vf18World {
	wd := &vf18World{cfg: c, ref: vfNewRef(c.W, c.H, c.SB, 2), vt: tty.NewVT(2, c.SB)}
	if c.Bpp == 0 {
		wd.vga = make([]uint16, c.W*c.H)
		for i := range wd.vga {
			wd.vga[i] = 0xffff
		}
		wd.initVga = append([]uint16(nil), wd.vga...)
		wd.vt.AttachTo(console.VerifNewVga(c.W, c.H, wd.vga))
		return wd
	}
	f := vfFont(c.Font)
	wd.f = f
	wd.bypp = uint32(c.Bpp+1) >> 3
	W := c.W * f.GlyphWidth
	H := c.H*f.GlyphHeight + c.Logo + c.Rem
	wd.pitch = W*wd.bypp + c.Pad
	wd.fb = make([]byte, H*wd.pitch)
	for i := range wd.fb {
		wd.fb[i] = byte(i*7 + 3)
	}
	for y := uint32(0); y < H; y++ {
		for x := W * wd.bypp; x < wd.pitch; x++ {
			wd.fb[y*wd.pitch+x] = 0x5A // uniform padding: the driver's scroll copies whole rows
		}
	}
	wd.initial = append([]byte(nil), wd.fb...)
	wd.cons = console.VerifNewVesa(W, H, c.Bpp, wd.pitch, vfMasks[c.Mask], wd.fb, c.Logo, f)
	wd.vt.AttachTo(wd.cons)
	return wd
}

// check compares the console with the reference viewport. everActive: the
// text grid only has defined content once the terminal was activated.
func (wd *vf18World) check(active bool, frozen []byte, frozenVga []uint16) string {
	c := wd.cfg
	if c.Bpp == 0 {
		for i := range wd.vga {
			if !active {
				if wd.vga[i] != frozenVga[i] {
					return fmt.Sprintf("text cell %d changed while the terminal is inactive", i)
				}
				continue
			}
			y, x := uint32(i)/c.W, uint32(i)%c.W
			cl := wd.ref.buf[(wd.ref.vy+y)*c.W+x]
			want := uint16(cl.bg)<<12 | uint16(cl.fg)<<8 | uint16(cl.ch)
			if wd.vga[i] != want {
				return fmt.Sprintf("text cell (%d,%d) holds %#04x, the terminal's viewport has %#04x (%q)", x+1, y+1, wd.vga[i], want, cl.ch)
			}
		}
		return ""
	}
	f := wd.f
	W := c.W * f.GlyphWidth
	H := c.H*f.GlyphHeight + c.Logo + c.Rem
	for y := uint32(0); y < H; y++ {
		for xb := uint32(0); xb < wd.pitch; xb++ {
			off := y*wd.pitch + xb
			inText := xb < W*wd.bypp && y >= c.Logo && y < c.Logo+c.H*f.GlyphHeight
			if !active {
				if wd.fb[off] != frozen[off] {
					return fmt.Sprintf("framebuffer byte (row %d, offset %d) changed while the terminal is inactive", y, xb)
				}
				continue
			}
			if !inText {
				if wd.fb[off] != wd.initial[off] {
					where := "row padding"
					if y < c.Logo {
						where = "logo area"
					} else if y >= c.Logo+c.H*f.GlyphHeight {
						where = "strip below the cell grid"
					}
					return fmt.Sprintf("byte outside the cell grid changed (row %d offset %d, %s)", y, xb, where)
				}
				continue
			}
			px := xb / wd.bypp
			k := xb % wd.bypp
			cx, cy := px/f.GlyphWidth, (y-c.Logo)/f.GlyphHeight
			gx, gy := px%f.GlyphWidth, (y-c.Logo)%f.GlyphHeight
			cl := wd.ref.buf[(wd.ref.vy+cy)*c.W+cx]
			bits := f.Data[uint32(cl.ch)*f.BytesPerRow*f.GlyphHeight+gy*f.BytesPerRow+gx/8]
			col := cl.bg
			if bits&(0x80>>(gx%8)) != 0 {
				col = cl.fg
			}
			p := console.VerifPack(wd.cons, col)
			if int(k) < len(p) && wd.fb[off] != p[k] {
				return fmt.Sprintf("pixel (%d,%d) byte %d is %#x, the glyph of viewport cell (%d,%d) %q needs %#x", px, y, k, wd.fb[off], cx+1, cy+1, cl.ch, p[k])
			}
		}
	}
	return ""
}

// vf18Run replays one history, checking after every event. Returns the index of the failing event and the message.
func vf18Run(c vf18Cfg, hist []byte) (int, string) {
	wd := vf18Make(c)
	active := false
	var frozen []byte
	var frozenVga []uint16
	freeze := func() {
		if wd.fb != nil {
			frozen = append(frozen[:0], wd.fb...)
		}
		if wd.vga != nil {
			frozenVga = append(frozenVga[:0], wd.vga...)
		}
	}
	freeze()
	for i, e := range hist {
		var pan interface{}
		func() {
			defer func() { pan = recover() }()
			switch e {
			case 'A':
				wd.vt.SetState(tty.StateActive)
				active = true
			case 'I':
				wd.vt.SetState(tty.StateInactive)
				if active {
					freeze()
				}
				active = false
			default:
				wd.vt.WriteByte(e)
				wd.ref.write(e)
			}
		}()
		if pan != nil {
			return i, fmt.Sprintf("panic: %v", pan)
		}
		if msg := wd.check(active, frozen, frozenVga); msg != "" {
			return i, msg
		}
	}
	return -1, ""
}

func TestVerifC18Cons(t *testing.T) {
	run := verifrt.Start("C18")
	var rp vf18Replay
	if run.Replaying(&rp) {
		run.Case()
		if i, msg := vf18Run(rp.Cfg, []byte(rp.Events)); msg != "" {
			run.Violate("console-differs", fmt.Sprintf("%v %q", rp.Cfg, rp.Events[:i+1]), msg, vf18Replay{rp.Cfg, rp.Events[:i+1]})
		}
		run.Finish(true, "replay", "replay")
		return
	}
	type kind struct {
		bpp  uint8
		mask string
	}
	kinds := []kind{{0, ""}, {8, ""}, {16, "565"}, {24, "rgb888"}, {32, "rgb888"}}
	fonts := []string{"synth8x2", "synth9x2", "terminus8x16"}
	depth, depthBig := 5, 4
	if run.Thorough() {
		kinds = []kind{{0, ""}, {8, ""}, {15, "555"}, {16, "565"}, {24, "rgb888"}, {24, "bgr888"}, {32, "rgb888"}, {32, "bgr888"}}
		fonts = []string{"synth8x2", "synth9x2", "terminus8x16", "terminus10x18", "terminus14x28"}
		depth, depthBig = 6, 4
	}
	events := []byte{'a', 'b', '\r', '\n', '\b', '\t', 'A', 'I'}
	idx := 0
	complete := true
	for _, k := range kinds {
		for fi, fn := range fonts {
			if k.bpp == 0 && fi != 0 {
				continue
			}
			for _, wh := range [][2]uint32{{1, 1}, {2, 2}, {3, 1}, {2, 3}} {
				for _, sb := range []uint32{0, 1} {
					for _, plr := range [][3]uint32{{0, 0, 0}, {5, 3, 1}} {
						if k.bpp == 0 && plr[0] != 0 {
							continue
						}
						idx++
						if !run.Mine(idx) {
							continue
						}
						c := vf18Cfg{Bpp: k.bpp, Mask: k.mask, Font: fn, W: wh[0], H: wh[1], SB: sb, Pad: plr[0], Logo: plr[1], Rem: plr[2]}
						if k.bpp == 0 {
							c.Font = ""
						}
						d := depth
						if run.Thorough() && k.bpp != 0 && (k.bpp == 15 || k.mask == "bgr888" || plr[0] != 0 && wh[0]*wh[1] > 3) {
							d = depth - 1 // the extra pixel formats and the padded larger grids one level shallower
						}
						if k.bpp != 0 && vfFont(fn).GlyphHeight > 2 {
							d = depthBig
							if wh[1] == 3 {
								continue
							}
						}
						var rec func(hist []byte) bool
						rec = func(hist []byte) bool {
							if run.OutOfBudget() {
								complete = false
								return false
							}
							if len(hist) > 0 {
								run.Case()
								run.Transitions++
								if i, msg := vf18Run(c, hist); msg != "" {
									run.Violate("console-differs", fmt.Sprintf("%v %q", c, hist[:i+1]), fmt.Sprintf("%s after events %q: %s", verifrt.JSONKey(c), hist[:i+1], msg), vf18Replay{c, string(hist[:i+1])})
									return true // do not extend a failing history
								}
							}
							if len(hist) == d {
								return true
							}
							for _, e := range events {
								if !rec(append(append([]byte{}, hist...), e)) {
									return false
								}
							}
							return true
						}
						rec(nil)
						run.Distinct(verifrt.JSONKey(c))
						run.Sample(vf18Replay{c, "Aab\n\tI\bA"})
					}
				}
			}
		}
	}
	run.States = int64(idx)
	run.Traces = run.Transitions
	run.Finish(complete, fmt.Sprintf("shipped consoles: text mode and framebuffers of depth {8,16,24,32} (thorough: 15 and BGR layouts), fonts {8x2, 9x2 synthetic, shipped 8x16; thorough: all three shipped fonts}, grids 1x1, 2x2, 3x1, 2x3, scrollback {0,1}, plain and padded+logo+remainder layouts: every history of length <=%d (%d for the shipped fonts) over {a, b, CR, LF, BS, TAB, activate, deactivate}, pixel-exact comparison after every event", depth, depthBig),
		"stateless enumeration of event histories on the real tty.VT + real console drivers; distinct = console configuration")
}
