//go:build verif
// +build verif

package console

import (
	"github.com/ProjectSerenity/firefly/kernel/device/video/console/font"
	"github.com/ProjectSerenity/firefly/kernel/multiboot"
)

// Export shims for the external C18 harness (package console_test).

func VerifNewVga(cols, rows uint32, fb []uint16) *VgaTextConsole {
	c := NewVgaTextConsole(cols, rows, 0)
	c.fb = fb
	return c
}

func VerifNewVesa(w, h uint32, bpp uint8, pitch uint32, ci *multiboot.FramebufferRGBColorInfo, fb []byte, logoRows uint32, f *font.Font) *VesaFbConsole {
	portWriteByteFn = func(uint16, uint8) {}
	c := NewVesaFbConsole(w, h, bpp, pitch, ci, 0)
	c.fb = fb
	c.loadDefaultPalette()
	c.offsetY = logoRows
	c.SetFont(f)
	return c
}

func VerifPack(c *VesaFbConsole, idx uint8) []byte {
	switch c.bpp {
	case 8:
		return []byte{idx}
	case 15, 16:
		p := c.packColor16(idx)
		return p[:]
	default:
		p := c.packColor24(idx)
		return p[:]
	}
}
