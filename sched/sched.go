//go:build verif
// +build verif

// Package verifsched is engine E3 (a controlled cooperative scheduler for real
// goroutines with a vector-clock happens-before race monitor and a
// preemption-bounded / state-pruned DFS explorer) and engine E4 (an interpreter
// for the Plan 9 amd64 assembly subset used by kernel/sync/spinlock_amd64.s).
//
// Threads are goroutines that run only when handed the baton. Schedule points
// are exactly the hooked operations: every atomic operation (through the shim
// the overlay substitutes for sync/atomic in kernel/sync), every interpreted
// assembly instruction that touches memory, PAUSE, CALL, thread start/finish.
// Spin-waiting is made visible generically: a thread whose local state repeats
// while shared memory is unchanged is disabled until another thread writes.
package verifsched

import (
	"fmt"
	"sort"
	"strconv"
	"strings"
	"unsafe"
)

// ---------------- scheduler ----------------

type status int

const (
	stReady status = iota
	stSpinning
	stDone
)

type thread struct {
	id      int
	body    func()
	resume  chan struct{}
	st      status
	local   uint64 // local state key supplied by hooks
	seen    map[uint64]bool
	seenVer uint64
	started bool
	prog    uint64
	vc      []int
}

type Point struct {
	Enabled []int
	Chosen  int // index into Enabled
	Cur     int // thread that was running before this point (-1 at start)
}

type Exec struct {
	Points   []Point
	Deadlock bool
	Pruned   bool
	Steps    int
	Err      string
}

type Sched struct {
	threads  []*thread
	yield    chan int // thread id that yielded or finished
	cur      *thread
	prefix   []int
	exec     *Exec
	memVer   uint64
	StateFn  func() string // global shared state (memory) key
	Visited  map[string]bool
	Monitor  func() string // invariant evaluated after every step
	MaxSteps int
	Stop     func() bool // optional: end the exploration early (time budget)
	// Policy, when set, answers the scheduling points beyond the replayed prefix (instead of choice 0): it gets the
	// enabled threads in canonical order and the running thread and returns an index into enabled. Used for single
	// directed schedules (e.g. lock-step round robin with hundreds of threads), never by the explorer.
	Policy func(enabled []int, cur int) int
	abort  bool
	fatal  string
	// HB
	lastWrite map[uintptr]acc
	lastReads map[uintptr][]acc
	syncVC    map[uintptr][]int
	Race      string
}
type acc struct {
	tid int
	clk int
}

var S *Sched // current scheduler (single-threaded use)

func (s *Sched) curThread() *thread { return s.cur }

// Step is called by hooks BEFORE a visible operation. local is the caller's local state key.
// Unscheduled runs f with every hook switched off: an oracle's own probe (e.g. a try-acquire on a copy of a lock)
// inside a scheduled thread is not part of the system under test - it is no scheduling point, no memory event and no
// candidate for spin detection.
func Unscheduled(f func()) {
	saved := S
	S = nil
	defer func() { S = saved }()
	f()
}

func Step(local uint64) {
	s := S
	if s == nil {
		return
	}
	t := s.cur
	t.local = local*1000003 + t.prog
	// hand control to scheduler
	s.yield <- t.id
	<-t.resume
	if s.abort {
		panic(abortSentinel{})
	}
}

type abortSentinel struct{}

// Progress records the harness-level operation index of the current thread (part of its local state).
func Progress(i int) {
	if S != nil {
		S.cur.prog = uint64(i)
	}
}

// Wrote must be called by hooks after a write that changed shared memory.
func Wrote() {
	if S != nil {
		S.memVer++
	}
}

func (s *Sched) run(bodies []func(), prefix []int) *Exec {
	s.threads = nil
	s.exec = &Exec{}
	s.prefix = prefix
	s.memVer = 0
	s.abort = false
	s.yield = make(chan int)
	s.lastWrite = map[uintptr]acc{}
	s.lastReads = map[uintptr][]acc{}
	s.syncVC = map[uintptr][]int{}
	s.Race = ""
	n := len(bodies)
	for i, b := range bodies {
		t := &thread{id: i, body: b, resume: make(chan struct{}), seen: map[uint64]bool{}, vc: make([]int, n)}
		t.vc[i] = 1
		s.threads = append(s.threads, t)
	}
	S = s
	defer func() { S = nil }()
	cur := -1
	for {
		var enabled []int
		allDone := true
		for _, t := range s.threads {
			if t.st != stDone {
				allDone = false
			}
			if t.st == stSpinning && t.seenVer != s.memVer {
				t.st = stReady
				t.seen = map[uint64]bool{}
			}
			if t.st == stReady {
				enabled = append(enabled, t.id)
			}
		}
		if allDone {
			break
		}
		if len(enabled) == 0 {
			s.exec.Deadlock = true
			s.kill()
			break
		}
		// canonical order: current first
		sort.Ints(enabled)
		if cur >= 0 {
			for i, e := range enabled {
				if e == cur {
					copy(enabled[1:i+1], enabled[:i])
					enabled[0] = cur
					break
				}
			}
		}
		// state pruning
		if s.Visited != nil && s.StateFn != nil && len(s.exec.Points) >= len(prefix) {
			k := s.StateFn()
			for _, t := range s.threads {
				k += fmt.Sprintf("|%d:%d:%x", t.id, t.st, t.local)
			}
			k += fmt.Sprintf("|cur%d", cur)
			if s.Visited[k] {
				s.exec.Pruned = true
				s.kill()
				break
			}
			s.Visited[k] = true
		}
		choice := 0
		pi := len(s.exec.Points)
		if pi < len(prefix) {
			choice = prefix[pi]
			if choice >= len(enabled) {
				s.exec.Err = fmt.Sprintf("replay divergence at point %d: choice %d of %d", pi, choice, len(enabled))
				s.kill()
				break
			}
		} else if s.Policy != nil {
			choice = s.Policy(enabled, cur)
		}
		s.exec.Points = append(s.exec.Points, Point{Enabled: enabled, Chosen: choice, Cur: cur})
		t := s.threads[enabled[choice]]
		cur = t.id
		s.cur = t
		if !t.started {
			t.started = true
			go func(t *thread) {
				defer func() {
					if r := recover(); r != nil {
						if _, ok := r.(abortSentinel); !ok {
							s.exec.Err = fmt.Sprint("panic in thread: ", r)
							if strings.Contains(s.exec.Err, "cannot bind model to code") {
								s.fatal = fmt.Sprint(r) // the interpreter cannot run this code: no verdict, never a violation
							}
						}
					}
					t.st = stDone
					s.yield <- t.id
				}()
				<-t.resume
				if s.abort {
					panic(abortSentinel{})
				}
				t.body()
			}(t)
		}
		t.resume <- struct{}{}
		<-s.yield
		s.exec.Steps++
		if s.exec.Err != "" {
			s.kill()
			break
		}
		if t.st != stDone {
			// spin detection
			if t.seenVer != s.memVer {
				t.seen = map[uint64]bool{}
				t.seenVer = s.memVer
			}
			if t.seen[t.local] {
				t.st = stSpinning
			} else {
				t.seen[t.local] = true
			}
		}
		if s.Monitor != nil {
			if m := s.Monitor(); m != "" {
				s.exec.Err = m
				s.kill()
				break
			}
		}
		if s.Race != "" {
			s.exec.Err = s.Race
			s.kill()
			break
		}
		if s.MaxSteps > 0 && s.exec.Steps > s.MaxSteps {
			s.exec.Err = "step horizon exceeded"
			s.kill()
			break
		}
	}
	if s.fatal != "" {
		panic(s.fatal)
	}
	return s.exec
}

func (s *Sched) kill() {
	s.abort = true
	for _, t := range s.threads {
		if t.st != stDone && t.started {
			t.resume <- struct{}{}
			<-s.yield
		}
		t.st = stDone
	}
}

// ---------- HB monitor ----------
func leq(a, b []int) bool {
	for i := range a {
		if a[i] > b[i] {
			return false
		}
	}
	return true
}

// SyncOp: atomic op on addr by current thread (acquire+release).
func SyncOp(addr uintptr) {
	s := S
	if s == nil {
		return
	}
	t := s.cur
	if vc, ok := s.syncVC[addr]; ok {
		for i := range vc {
			if vc[i] > t.vc[i] {
				t.vc[i] = vc[i]
			}
		}
	}
	// release: publish the clock as it is *before* this thread's later accesses; those get a
	// larger own-component, so an access performed after a release is not covered by it
	s.syncVC[addr] = append([]int(nil), t.vc...)
	t.vc[t.id]++
}

// Access: plain access to shared location addr.
func Access(addr uintptr, write bool) {
	s := S
	if s == nil {
		return
	}
	t := s.cur
	if w, ok := s.lastWrite[addr]; ok && w.tid != t.id && w.clk > t.vc[w.tid] {
		s.Race = fmt.Sprintf("data race on lock-protected data: write by T%d does not happen-before the access by T%d", w.tid, t.id)
	}
	if write {
		for _, r := range s.lastReads[addr] {
			if r.tid != t.id && r.clk > t.vc[r.tid] {
				s.Race = fmt.Sprintf("data race on lock-protected data: read by T%d does not happen-before the write by T%d", r.tid, t.id)
			}
		}
		s.lastWrite[addr] = acc{t.id, t.vc[t.id]}
		s.lastReads[addr] = nil
	} else {
		s.lastReads[addr] = append(s.lastReads[addr], acc{t.id, t.vc[t.id]})
	}
}

var fieldLocs = map[string]uintptr{}

// FieldAccess is the hook the access instrumenter (tools/instr-access) inserts
// before statements that read or write a mutable receiver field. The location
// is the field name: every access to lock-protected state must be ordered by
// happens-before with every conflicting one, whichever element it touches.
func FieldAccess(field string, write bool) {
	if S == nil {
		return
	}
	loc, ok := fieldLocs[field]
	if !ok {
		loc = uintptr(0xf1e1d000 + len(fieldLocs)*8)
		fieldLocs[field] = loc
	}
	before := S.Race
	Access(loc, write)
	if S.Race != "" && before == "" {
		S.Race += " (field " + field + ")"
	}
}

// RelaxedRead records a plain load of a synchronisation word. On x86-64 (TSO) every load has acquire semantics: the
// reader learns everything that happened before the store it reads from, so the load joins the clock published at the
// word by its last synchronising write. It publishes nothing itself, and it is never reported as a data access.
func RelaxedRead(addr uintptr) {
	s := S
	if s == nil {
		return
	}
	t := s.cur
	if vc, ok := s.syncVC[addr]; ok {
		for i := range vc {
			if vc[i] > t.vc[i] {
				t.vc[i] = vc[i]
			}
		}
	}
}

// PlainLockWordWrite is a non-atomic store to a word that is otherwise only
// accessed atomically: it is a release without the read half; it is treated as
// a synchronisation write (the lock protocol decides whether it is correct).
func PlainLockWordWrite(addr uintptr) { SyncOp(addr) }

// ---------- explorer ----------
// Violation is one failing execution: the message, the replayable choice
// indices and the thread chosen at every point.
type Violation struct {
	Msg     string
	Choices []int
	Threads []int
}

type Stats struct {
	Stopped                                  bool // the Stop callback ended the exploration early
	Executions, Pruned, Deadlocks, MaxPoints int
	Violations                               []Violation
	Steps                                    int
}

func preemptionsBefore(pts []Point, i int) int {
	c := 0
	for j := 0; j < i; j++ {
		p := pts[j]
		if p.Cur >= 0 && p.Enabled[0] == p.Cur && p.Chosen != 0 {
			c++
		}
	}
	return c
}

// Explore runs DFS with a preemption bound (bound<0: unbounded).
func Explore(mk func() []func(), bound int, s *Sched, check func(x *Exec) string, st *Stats) {
	var rec func(prefix []int)
	rec = func(prefix []int) {
		if len(st.Violations) > 0 || st.Stopped {
			return
		}
		if s.Stop != nil && s.Stop() {
			st.Stopped = true
			return
		}
		x := s.run(mk(), prefix)
		st.Executions++
		st.Steps += x.Steps
		if len(x.Points) > st.MaxPoints {
			st.MaxPoints = len(x.Points)
		}
		if x.Pruned {
			st.Pruned++
		}
		if x.Err != "" {
			st.Violations = append(st.Violations, Violation{x.Err, Choices(x), choices(x)})
			return
		}
		if x.Deadlock {
			st.Deadlocks++
			st.Violations = append(st.Violations, Violation{"deadlock: some task is unfinished and no task can make progress", Choices(x), choices(x)})
			return
		}
		if !x.Pruned {
			if m := check(x); m != "" {
				st.Violations = append(st.Violations, Violation{m, Choices(x), choices(x)})
				return
			}
		}
		for i := len(prefix); i < len(x.Points); i++ {
			p := x.Points[i]
			for alt := 1; alt < len(p.Enabled); alt++ {
				cost := preemptionsBefore(x.Points, i)
				if p.Cur >= 0 && p.Enabled[0] == p.Cur {
					cost++
				}
				if bound >= 0 && cost > bound {
					continue
				}
				np := make([]int, i+1)
				for j := 0; j < i; j++ {
					np[j] = x.Points[j].Chosen
				}
				np[i] = alt
				rec(np)
			}
		}
	}
	rec(nil)
}

// Schedule returns the thread chosen at every point of x.
func Schedule(x *Exec) []int { return choices(x) }

// Run executes one schedule: prefix gives the choice index at each point, later points take choice 0.
func (s *Sched) Run(bodies []func(), prefix []int) *Exec { return s.run(bodies, prefix) }

// Choices returns the choice indices of x (replayable with Run).
func Choices(x *Exec) []int {
	var c []int
	for _, p := range x.Points {
		c = append(c, p.Chosen)
	}
	return c
}

func choices(x *Exec) []int {
	var c []int
	for _, p := range x.Points {
		c = append(c, p.Enabled[p.Chosen])
	}
	return c
}

// ---------------- asm interpreter ----------------
type operand struct {
	kind string // imm reg mem fp sb
	reg  string
	off  int64
	imm  int64
	sym  string
}
type instr struct {
	op   string
	a    []operand
	line int
	text string
}
type Program struct {
	ins    []instr
	labels map[string]int
}

func parseOperand(s string) operand {
	s = strings.TrimSpace(s)
	switch {
	case strings.HasPrefix(s, "$"):
		v, err := evalImm(s[1:])
		if err != nil {
			panic(fmt.Sprintf("x86mini: cannot bind model to code: immediate %q: %v", s, err))
		}
		return operand{kind: "imm", imm: v}
	case strings.HasSuffix(s, "(FP)"):
		body := strings.TrimSuffix(s, "(FP)")
		i := strings.LastIndexAny(body, "+-")
		off, _ := strconv.ParseInt(body[i:], 0, 64)
		return operand{kind: "fp", sym: body[:i], off: off}
	case strings.HasSuffix(s, "(SP)"):
		body := strings.TrimSuffix(s, "(SP)")
		i := strings.LastIndexAny(body, "+-")
		off := int64(0)
		if i >= 0 {
			off, _ = strconv.ParseInt(body[i:], 0, 64)
		} else if body != "" {
			off, _ = strconv.ParseInt(body, 0, 64)
		}
		return operand{kind: "sp", off: off}
	case strings.HasSuffix(s, "(SB)"):
		body := strings.TrimSuffix(s, "(SB)")
		i := strings.LastIndexAny(body, "+-")
		off := int64(0)
		sym := body
		if i > 0 {
			off, _ = strconv.ParseInt(body[i:], 0, 64)
			sym = body[:i]
		}
		return operand{kind: "sb", sym: strings.TrimPrefix(sym, "·"), off: off}
	case strings.HasSuffix(s, ")"):
		i := strings.Index(s, "(")
		off := int64(0)
		if i > 0 {
			off, _ = strconv.ParseInt(s[:i], 0, 64)
		}
		return operand{kind: "mem", reg: s[i+1 : len(s)-1], off: off}
	default:
		return operand{kind: "reg", reg: s}
	}
}

// ParseAsm extracts the TEXT block of fn from Plan 9 assembly source.
func ParseAsm(src, fn string) *Program {
	p := &Program{labels: map[string]int{}}
	in := false
	for ln, line := range strings.Split(src, "\n") {
		if i := strings.Index(line, "//"); i >= 0 {
			line = line[:i]
		}
		line = strings.TrimSpace(line)
		if line == "" || strings.HasPrefix(line, "#") {
			continue
		}
		if strings.HasPrefix(line, "TEXT") {
			in = strings.Contains(line, "·"+fn+"(SB)")
			continue
		}
		if !in {
			continue
		}
		if strings.HasSuffix(line, ":") {
			p.labels[strings.TrimSuffix(line, ":")] = len(p.ins)
			continue
		}
		f := strings.SplitN(line, " ", 2)
		if len(f) == 1 {
			f = strings.SplitN(line, "\t", 2)
		}
		it := instr{op: strings.TrimSpace(f[0]), line: ln + 1, text: line}
		if len(f) == 2 && strings.TrimSpace(f[1]) != "" {
			if it.op == "CALL" && isRegName(strings.TrimSpace(f[1])) {
				it.a = []operand{{kind: "reg", reg: strings.TrimSpace(f[1])}}
			} else if strings.HasPrefix(it.op, "J") || it.op == "CALL" && !strings.Contains(f[1], "(") {
				it.a = []operand{{kind: "label", sym: strings.TrimSpace(f[1])}}
			} else {
				for _, a := range strings.Split(f[1], ",") {
					it.a = append(it.a, parseOperand(a))
				}
			}
		}
		p.ins = append(p.ins, it)
	}
	if len(p.ins) == 0 {
		panic("x86mini: cannot bind model to code: function not found: " + fn)
	}
	for _, it := range p.ins {
		if !supportedOps[it.op] {
			panic(fmt.Sprintf("x86mini: cannot bind model to code: unsupported instruction %q at line %d", it.text, it.line))
		}
		if it.op == "CALL" && (len(it.a) != 1 || (it.a[0].kind != "mem" && it.a[0].kind != "reg")) {
			panic(fmt.Sprintf("x86mini: cannot bind model to code: unsupported CALL form %q at line %d (only calls through a register or 0(register) are interpreted)", it.text, it.line))
		}
		if (strings.HasPrefix(it.op, "J") || it.op == "JMP") && len(it.a) == 1 {
			if _, ok := p.labels[it.a[0].sym]; !ok {
				// labels defined later were collected above, so this is a genuine miss
				panic(fmt.Sprintf("x86mini: cannot bind model to code: unknown label %q at line %d", it.a[0].sym, it.line))
			}
		}
	}
	return p
}

// AsmConsts holds the Go constants the assembly may refer to as const_<name> (go_asm.h style); the harness fills it.
var AsmConsts = map[string]int64{}

// evalImm evaluates an immediate: integers, const_<name>, parentheses and + - * / << >> | & with C-like precedence.
func evalImm(src string) (int64, error) {
	toks := []string{}
	for i := 0; i < len(src); {
		c := src[i]
		switch {
		case c == ' ' || c == '\t':
			i++
		case strings.ContainsRune("()+-*/|&", rune(c)):
			toks = append(toks, string(c))
			i++
		case c == '<' || c == '>':
			if i+1 >= len(src) || src[i+1] != c {
				return 0, fmt.Errorf("unexpected %q", c)
			}
			toks = append(toks, src[i:i+2])
			i += 2
		default:
			j := i
			for j < len(src) && (src[j] == '_' || src[j] == 'x' || src[j] >= '0' && src[j] <= '9' || src[j] >= 'a' && src[j] <= 'z' || src[j] >= 'A' && src[j] <= 'Z') {
				j++
			}
			if j == i {
				return 0, fmt.Errorf("unexpected %q", c)
			}
			toks = append(toks, src[i:j])
			i = j
		}
	}
	pos := 0
	prec := map[string]int{"|": 1, "&": 2, "<<": 3, ">>": 3, "+": 4, "-": 4, "*": 5, "/": 5}
	var expr func(min int) (int64, error)
	atom := func() (int64, error) {
		if pos >= len(toks) {
			return 0, fmt.Errorf("unexpected end")
		}
		t := toks[pos]
		pos++
		switch {
		case t == "(":
			v, err := expr(1)
			if err != nil {
				return 0, err
			}
			if pos >= len(toks) || toks[pos] != ")" {
				return 0, fmt.Errorf("missing )")
			}
			pos++
			return v, nil
		case t == "-":
			v, err := expr(6)
			return -v, err
		case strings.HasPrefix(t, "const_"):
			v, ok := AsmConsts[t[6:]]
			if !ok {
				return 0, fmt.Errorf("unknown Go constant %s", t[6:])
			}
			return v, nil
		}
		return strconv.ParseInt(t, 0, 64)
	}
	expr = func(min int) (int64, error) {
		l, err := atom()
		if err != nil {
			return 0, err
		}
		for pos < len(toks) && prec[toks[pos]] >= min {
			op := toks[pos]
			pos++
			r, err := expr(prec[op] + 1)
			if err != nil {
				return 0, err
			}
			switch op {
			case "|":
				l |= r
			case "&":
				l &= r
			case "<<":
				l <<= uint(r)
			case ">>":
				l >>= uint(r)
			case "+":
				l += r
			case "-":
				l -= r
			case "*":
				l *= r
			case "/":
				if r == 0 {
					return 0, fmt.Errorf("division by zero")
				}
				l /= r
			}
		}
		return l, nil
	}
	v, err := expr(1)
	if err == nil && pos != len(toks) {
		err = fmt.Errorf("trailing %q", toks[pos])
	}
	return v, err
}

func isRegName(r string) bool {
	switch r {
	case "AX", "BX", "CX", "DX", "SI", "DI", "BP", "R8", "R9", "R10", "R11", "R12", "R13", "R14", "R15":
		return true
	}
	return false
}

var supportedOps = map[string]bool{"MOVQ": true, "MOVL": true, "XCHGL": true, "XCHGQ": true, "TESTL": true, "TESTQ": true, "CMPL": true, "CMPQ": true,
	"DECL": true, "INCL": true, "ADDL": true, "SUBL": true, "XORL": true, "XORQ": true, "ANDL": true, "ORL": true,
	"JNZ": true, "JNE": true, "JZ": true, "JE": true, "JEQ": true, "JMP": true, "PAUSE": true, "CALL": true, "RET": true,
	"LOCK": true, "CMPXCHGL": true, "MFENCE": true, "NOP": true,
	"BTL": true, "BTSL": true, "BTRL": true, "BTCL": true, "BTQ": true, "BTSQ": true, "BTRQ": true, "BTCQ": true,
	"XADDL": true, "SHRL": true, "SHLL": true, "SHRQ": true, "SHLQ": true, "CMPB": true, "CMPW": true, "MOVW": true, "MOVB": true,
	"MOVWLZX": true, "MOVBLZX": true, "MOVWQZX": true, "MOVBQZX": true, "MOVLQZX": true, "ADDQ": true, "SUBQ": true, "ANDQ": true, "ORQ": true,
	"NOTL": true, "NEGL": true, "INCQ": true, "DECQ": true, "TESTB": true, "TESTW": true,
	"JC": true, "JNC": true, "JB": true, "JAE": true, "JA": true, "JBE": true, "JL": true, "JG": true, "JNL": true, "JNG": true, "JLT": true, "JGE": true, "JGT": true, "JLE": true, "JCS": true, "JLO": true, "JCC": true, "JHS": true, "JHI": true, "JLS": true}

type CPU struct {
	pc    int
	regs  map[string]uint64
	zf    bool
	cf    bool             // unsigned below (after CMP a,b / SUB: a < b)
	lt    bool             // signed less (after CMP a,b: a < b)
	stack map[int64]uint64 // local frame slots (name-8(SP))
	phase uint64           // 1 while an un-LOCKed read-modify-write is between its load and its store
}

func (c *CPU) key() uint64 {
	k := uint64(c.pc)
	for _, r := range []string{"AX", "BX", "CX", "DX", "SI", "DI", "R8", "R9", "R10", "R11", "R12", "R13", "R14", "R15", "BP"} {
		k = k*1000003 + c.regs[r]
	}
	k = k*1000003 + c.phase
	if len(c.stack) > 0 {
		offs := make([]int64, 0, len(c.stack))
		for o := range c.stack {
			offs = append(offs, o)
		}
		sort.Slice(offs, func(i, j int) bool { return offs[i] < offs[j] })
		for _, o := range offs {
			k = (k*1000003+uint64(o))*1000003 + c.stack[o]
		}
	}
	if c.zf {
		k ^= 1 << 63
	}
	if c.cf {
		k ^= 1 << 62
	}
	if c.lt {
		k ^= 1 << 61
	}
	return k
}

var keepAlive []interface{}

// readable reports whether p is one of the addresses the interpreter was given (globals) - a cheap plausibility test
// before dereferencing a register as a func value.
var knownGlobals = map[uintptr]bool{}

func readable(p uintptr) bool {
	for g := range knownGlobals {
		_ = g
	}
	return p > 0x1000
}

// Run interprets the program. frame holds the FP argument bytes; globals maps SB symbols to addresses.
func (p *Program) Run(frame []byte, globals map[string]uintptr) {
	c := &CPU{regs: map[string]uint64{}, stack: map[int64]uint64{}}
	// byte registers name the low byte of the full register (AL -> AX, ...)
	subReg := func(r string) (string, bool) {
		switch r {
		case "AL", "BL", "CL", "DL":
			return r[:1] + "X", true
		}
		return r, false
	}
	mask := func(n int) uint64 {
		if n >= 8 {
			return ^uint64(0)
		}
		return uint64(1)<<(8*uint(n)) - 1
	}
	size := func(op string) int {
		switch op {
		case "MOVWLZX", "MOVWQZX":
			return 2
		case "MOVBLZX", "MOVBQZX":
			return 1
		case "MOVLQZX":
			return 4
		}
		if strings.HasSuffix(op, "Q") {
			return 8
		}
		if strings.HasSuffix(op, "L") {
			return 4
		}
		if strings.HasSuffix(op, "W") {
			return 2
		}
		return 1
	}
	addrOf := func(o operand) uintptr {
		switch o.kind {
		case "mem":
			return uintptr(c.regs[o.reg]) + uintptr(o.off)
		case "sb":
			a, ok := globals[o.sym]
			if !ok {
				panic("unknown global " + o.sym)
			}
			return a + uintptr(o.off)
		}
		panic("x86mini: cannot bind model to code: address of a " + o.kind + " operand")
	}
	shared := func(o operand) bool { return o.kind == "mem" }
	load := func(o operand, n int) uint64 {
		switch o.kind {
		case "imm":
			return uint64(o.imm)
		case "reg":
			r, _ := subReg(o.reg)
			return c.regs[r] & mask(n)
		case "sp":
			return c.stack[o.off] & mask(n)
		case "fp":
			var v uint64
			for i := 0; i < n; i++ {
				v |= uint64(frame[int(o.off)+i]) << (8 * uint(i))
			}
			return v
		default:
			a := addrOf(o)
			switch n {
			case 8:
				return *(*uint64)(unsafe.Pointer(a))
			case 2:
				return uint64(*(*uint16)(unsafe.Pointer(a)))
			case 1:
				return uint64(*(*uint8)(unsafe.Pointer(a)))
			}
			return uint64(*(*uint32)(unsafe.Pointer(a)))
		}
	}
	store := func(o operand, n int, v uint64) {
		switch o.kind {
		case "reg":
			r, _ := subReg(o.reg)
			switch n {
			case 1, 2: // narrow writes keep the upper bits of the register
				c.regs[r] = c.regs[r]&^mask(n) | v&mask(n)
			case 4:
				c.regs[r] = v & 0xffffffff // 32-bit writes zero-extend
			default:
				c.regs[r] = v
			}
		case "sp":
			c.stack[o.off] = c.stack[o.off]&^mask(n) | v&mask(n)
		case "fp":
			// an argument slot reused as a local (the frame is private to this activation)
			for i := 0; i < n; i++ {
				frame[int(o.off)+i] = byte(v >> (8 * uint(i)))
			}
		case "mem", "sb":
			a := addrOf(o)
			if n == 8 {
				if *(*uint64)(unsafe.Pointer(a)) != v {
					Wrote()
				}
				*(*uint64)(unsafe.Pointer(a)) = v
			} else if n == 2 {
				if *(*uint16)(unsafe.Pointer(a)) != uint16(v) {
					Wrote()
				}
				*(*uint16)(unsafe.Pointer(a)) = uint16(v)
			} else if n == 1 {
				if *(*uint8)(unsafe.Pointer(a)) != uint8(v) {
					Wrote()
				}
				*(*uint8)(unsafe.Pointer(a)) = uint8(v)
			} else {
				if *(*uint32)(unsafe.Pointer(a)) != uint32(v) {
					Wrote()
				}
				*(*uint32)(unsafe.Pointer(a)) = uint32(v)
			}
		default:
			panic("x86mini: cannot bind model to code: store to a " + o.kind + " operand")
		}
	}
	lockNext := false
	for {
		if c.pc >= len(p.ins) {
			panic("fell off the end of the function")
		}
		it := p.ins[c.pc]
		touches := false
		for _, a := range it.a {
			if shared(a) {
				touches = true
			}
		}
		if touches || it.op == "PAUSE" || it.op == "CALL" {
			Step(c.key())
		}
		n := size(it.op)
		next := c.pc + 1
		lockPrefix := lockNext
		lockNext = false
		switch it.op {
		case "MOVWLZX", "MOVBLZX", "MOVWQZX", "MOVBQZX", "MOVLQZX":
			if shared(it.a[0]) {
				RelaxedRead(addrOf(it.a[0]))
			}
			store(it.a[1], 8, load(it.a[0], n))
		case "SHRL", "SHLL", "SHRQ", "SHLQ":
			cnt := load(it.a[0], 1) & 63
			v := load(it.a[1], n)
			if it.op[2] == 'R' {
				v >>= cnt
			} else {
				v = v << cnt & mask(n)
			}
			store(it.a[1], n, v)
			c.zf = v == 0
		case "NOTL":
			store(it.a[0], 4, ^load(it.a[0], 4)&0xffffffff)
		case "NEGL":
			v := (-load(it.a[0], 4)) & 0xffffffff
			store(it.a[0], 4, v)
			c.zf = v == 0
		case "BTL", "BTSL", "BTRL", "BTCL", "BTQ", "BTSQ", "BTRQ", "BTCQ":
			// BTx bit, dst: CF = old bit; S sets, R resets, C complements it (a read-modify-write unless plain BT)
			bitOp, m := it.a[0], it.a[1]
			modifies := it.op[2] != 'L' && it.op[2] != 'Q'
			if shared(m) {
				if lockPrefix || !modifies {
					if lockPrefix {
						SyncOp(addrOf(m))
					} else {
						RelaxedRead(addrOf(m))
					}
				} else {
					RelaxedRead(addrOf(m))
				}
			}
			old := load(m, n)
			if shared(m) && modifies && !lockPrefix {
				c.phase = 1
				Step(c.key()) // un-LOCKed read-modify-write: the store is a separate step
				c.phase = 0
				PlainLockWordWrite(addrOf(m))
			}
			bit := uint64(1) << (load(bitOp, 1) & uint64(8*n-1))
			c.cf = old&bit != 0
			if modifies {
				v := old
				switch it.op[2] {
				case 'S':
					v |= bit
				case 'R':
					v &^= bit
				case 'C':
					v ^= bit
				}
				store(m, n, v)
			}
		case "XADDL":
			// XADDL reg, mem: tmp = mem; mem += reg; reg = tmp
			r, m := it.a[0], it.a[1]
			if shared(m) {
				if lockPrefix {
					SyncOp(addrOf(m))
				} else {
					RelaxedRead(addrOf(m))
				}
			}
			old := load(m, 4)
			if shared(m) && !lockPrefix {
				c.phase = 1
				Step(c.key()) // un-LOCKed read-modify-write: the store is a separate step
				c.phase = 0
				PlainLockWordWrite(addrOf(m))
			}
			sum := (old + load(r, 4)) & 0xffffffff
			store(m, 4, sum)
			store(r, 4, old)
			c.zf = sum == 0
		case "MOVQ", "MOVL", "MOVW", "MOVB":
			if shared(it.a[0]) {
				RelaxedRead(addrOf(it.a[0])) // plain load of a lock word: a hint that is re-validated by XCHG; not a data access
			}
			if shared(it.a[1]) {
				PlainLockWordWrite(addrOf(it.a[1]))
			}
			store(it.a[1], n, load(it.a[0], n))
		case "XCHGL", "XCHGQ":
			m, r := it.a[0], it.a[1]
			if m.kind != "mem" {
				m, r = r, m
			}
			SyncOp(addrOf(m))
			old := load(m, n)
			store(m, n, load(r, n))
			store(r, n, old)
		case "TESTL", "TESTQ", "TESTB", "TESTW":
			c.zf = load(it.a[0], n)&load(it.a[1], n) == 0
		case "DECL":
			v := (load(it.a[0], 4) - 1) & 0xffffffff
			store(it.a[0], 4, v)
			c.zf = v == 0
		case "CMPL", "CMPQ", "CMPW", "CMPB":
			// Plan 9 operand order: CMPL a, b sets flags for a-b
			if shared(it.a[0]) {
				RelaxedRead(addrOf(it.a[0]))
			}
			if shared(it.a[1]) {
				RelaxedRead(addrOf(it.a[1]))
			}
			a, b := load(it.a[0], n), load(it.a[1], n)
			c.zf = a == b
			c.cf = a < b
			sh := uint(64 - 8*n)
			c.lt = int64(a<<sh) < int64(b<<sh)
		case "INCL":
			v := (load(it.a[0], 4) + 1) & 0xffffffff
			store(it.a[0], 4, v)
			c.zf = v == 0
		case "INCQ", "DECQ":
			v := load(it.a[0], 8)
			if it.op == "INCQ" {
				v++
			} else {
				v--
			}
			store(it.a[0], 8, v)
			c.zf = v == 0
		case "ADDL", "SUBL", "XORL", "XORQ", "ANDL", "ORL", "ADDQ", "SUBQ", "ANDQ", "ORQ":
			if shared(it.a[1]) {
				if lockPrefix {
					SyncOp(addrOf(it.a[1]))
				} else {
					RelaxedRead(addrOf(it.a[1]))
				}
			}
			a, b := load(it.a[0], n), load(it.a[1], n)
			if shared(it.a[1]) && !lockPrefix {
				c.phase = 1
				Step(c.key()) // un-LOCKed read-modify-write: the store is a separate step
				c.phase = 0
				PlainLockWordWrite(addrOf(it.a[1]))
			}
			var v uint64
			switch it.op {
			case "ADDL", "ADDQ":
				v = b + a
			case "SUBL", "SUBQ":
				v = b - a
				c.cf = b < a
			case "XORL", "XORQ":
				v = b ^ a
			case "ANDL", "ANDQ":
				v = b & a
			case "ORL", "ORQ":
				v = b | a
			}
			if n == 4 {
				v &= 0xffffffff
			}
			store(it.a[1], n, v)
			c.zf = v == 0
		case "CMPXCHGL":
			// CMPXCHGL src, mem: if AX == mem { mem = src; ZF=1 } else { AX = mem; mem = mem; ZF=0 }
			src, m := it.a[0], it.a[1]
			if lockPrefix {
				SyncOp(addrOf(m))
				cur := load(m, 4)
				if uint32(c.regs["AX"]) == uint32(cur) {
					store(m, 4, load(src, 4))
					c.zf = true
				} else {
					c.regs["AX"] = cur
					c.zf = false
				}
			} else {
				// Without LOCK the load and the store of a read-modify-write are separate bus operations:
				// another core can get in between. (The destination is always written back.)
				RelaxedRead(addrOf(m))
				cur := load(m, 4)
				c.phase = 1
				Step(c.key())
				c.phase = 0
				PlainLockWordWrite(addrOf(m))
				if uint32(c.regs["AX"]) == uint32(cur) {
					store(m, 4, load(src, 4))
					c.zf = true
				} else {
					store(m, 4, cur)
					c.regs["AX"] = cur
					c.zf = false
				}
			}
		case "LOCK":
			lockNext = true
		case "MFENCE", "NOP":
		case "JNZ", "JNE":
			if !c.zf {
				next = p.label(it)
			}
		case "JZ", "JE", "JEQ":
			if c.zf {
				next = p.label(it)
			}
		case "JLT", "JL", "JNGE":
			if c.lt {
				next = p.label(it)
			}
		case "JGE", "JNL":
			if !c.lt {
				next = p.label(it)
			}
		case "JGT", "JG":
			if !c.lt && !c.zf {
				next = p.label(it)
			}
		case "JLE", "JNG":
			if c.lt || c.zf {
				next = p.label(it)
			}
		case "JCS", "JLO", "JC", "JB":
			if c.cf {
				next = p.label(it)
			}
		case "JCC", "JHS", "JNC", "JAE":
			if !c.cf {
				next = p.label(it)
			}
		case "JHI", "JA":
			if !c.cf && !c.zf {
				next = p.label(it)
			}
		case "JLS", "JBE":
			if c.cf || c.zf {
				next = p.label(it)
			}
		case "JMP":
			next = p.label(it)
		case "PAUSE":
		case "CALL":
			if it.a[0].kind == "mem" || it.a[0].kind == "reg" {
				// CALL 0(R): R holds a func value (pointer to a funcval). CALL R: R holds the code pointer; by Go's
				// closure convention DX then holds the func value it was loaded from - otherwise a bare funcval is made.
				fv := uintptr(c.regs[it.a[0].reg])
				if it.a[0].kind == "reg" {
					code := fv
					fv = uintptr(c.regs["DX"])
					if fv == 0 || !readable(fv) || *(*uintptr)(unsafe.Pointer(fv)) != code {
						bare := &struct{ fn uintptr }{code}
						keepAlive = append(keepAlive, bare)
						fv = uintptr(unsafe.Pointer(bare))
					}
				}
				f := *(*func())(unsafe.Pointer(&fv))
				f()
				for _, r := range []string{"AX", "BX", "CX", "DX"} {
					c.regs[r] = 0xdeadbeef
				} // caller-saved: clobbered
			} else {
				panic("x86mini: cannot bind model to code: unsupported CALL form")
			}
		case "RET":
			return
		default:
			panic(fmt.Sprintf("x86mini: cannot bind model to code: unsupported instruction %q at line %d", it.text, it.line))
		}
		c.pc = next
	}
}
func (p *Program) label(it instr) int {
	i, ok := p.labels[it.a[0].sym]
	if !ok {
		panic("unknown label " + it.a[0].sym)
	}
	return i
}
