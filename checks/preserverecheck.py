#!/usr/bin/env python3
"""preserverecheck.py [names]: re-runs our quick checks against the kept property-PRESERVING changes (through the build
overlay, /repo untouched). Each change is run against the check of the property it was written for and against the checks
of the neighbouring properties that share its code; every run must be silent (exit 0), except the pairs listed in
EXPECTED, where the change - written to preserve another property - really breaks the letter of this one."""
import json, os, re, subprocess, sys, time
VERIF = "/verif"
GROUPS = [["C01", "C02", "C03", "C09"], ["C04", "C05", "C06", "C07"], ["C11", "C12", "C13"], ["C16", "C17", "C18", "C19"], ["C15", "C16"],
          ["C10", "C01", "C02", "C03", "C05"], ["C08", "C09"], ["C14"], ["C20"]]
# (change, check): why an alarm here is right
EXPECTED = {  # keyed by the name of the kept change
    ("C18-2", "C17"): "the change shifts the whole buffer once it is full: hidden scrollback lines move, C17 says they stay (C17's letter)",
    ("C11", "C12"): "the change copies strings/names/buffers out of the table: they no longer lie inside the table's bytes (C12's letter)",
    ("C18", "C17"): "the change turns the terminal buffer into a ring: scrollback keeps the newest lines instead of staying untouched (C17's letter)",
}
names = sys.argv[1:] or sorted(os.listdir(os.path.join(VERIF, "preserving")))
bad = 0
for name in names:
    d = os.path.join(VERIF, "preserving", name)
    if not os.path.isfile(os.path.join(d, "meta.json")):
        continue
    pid = name.split("-")[0]
    targets = [pid]
    for g in GROUPS:
        if g[0] == pid or (pid in g and g[0] not in ("C10",)):
            for c in g:
                if c not in targets:
                    targets.append(c)
    meta = json.load(open(os.path.join(d, "meta.json")))
    rec = dict(at=time.strftime("%Y-%m-%d %H:%M"), runs={})
    for c in targets:
        p = subprocess.run(["timeout", "1500", os.path.join(VERIF, "vcheck"), c, "--tier", "quick", "--mutant", os.path.join(d, "patch.diff")], cwd=VERIF, stdout=subprocess.PIPE, stderr=subprocess.STDOUT)
        out = p.stdout.decode("utf-8", "replace")
        classes = sorted(set(re.findall(r"class=(\S+)", out)))
        exp = EXPECTED.get((name, c))
        ok = (p.returncode == 0) if not exp else (p.returncode == 1)
        rec["runs"][c] = dict(exit=p.returncode, classes=classes, expected=("alarm: " + exp) if exp else "silent", as_expected=ok)
        print("%-7s -> %s exit=%d %s %s" % (name, c, p.returncode, ",".join(classes), "" if ok else "<<< UNEXPECTED"))
        if not ok:
            bad = 1
    meta.setdefault("rechecks", []).append(rec)
    json.dump(meta, open(os.path.join(d, "meta.json"), "w"), indent=1)
sys.exit(bad)
