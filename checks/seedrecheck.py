#!/usr/bin/env python3
"""seedrecheck.py [<seeded dir name> ...]: re-runs our quick check(s) against kept seeded changes
(patch applied to /repo, undone straight afterwards) and records the outcome in their meta.json."""
import json, os, re, subprocess, sys, time
VERIF = "/verif"
names = sys.argv[1:] or sorted(os.listdir(os.path.join(VERIF, "seeded")))
rc_all = 0
for name in names:
    d = os.path.join(VERIF, "seeded", name)
    if not os.path.isdir(d):
        continue
    meta = json.load(open(os.path.join(d, "meta.json")))
    pid = name.split("-")[0]
    subprocess.run(["git", "-C", "/repo", "checkout", "--", "."])
    if subprocess.run(["git", "-C", "/repo", "apply", os.path.join(d, "patch.diff")]).returncode != 0:
        print(name, "patch does not apply"); rc_all = 1; continue
    try:
        p = subprocess.run(["timeout", "1500", os.path.join(VERIF, "vcheck"), pid, "--tier", "quick"], cwd=VERIF, stdout=subprocess.PIPE, stderr=subprocess.STDOUT, env=dict(os.environ, VERIF_NO_EVIDENCE="1"))
        out = p.stdout.decode("utf-8", "replace")
    finally:
        subprocess.run(["git", "-C", "/repo", "checkout", "--", "."])
        subprocess.run(["git", "-C", "/repo", "clean", "-fdq"])
    classes = sorted(set(re.findall(r"class=(\S+)", out)))
    rec = dict(at=time.strftime("%Y-%m-%d %H:%M"), exit=p.returncode, caught=(p.returncode == 1), classes=classes)
    meta.setdefault("rechecks", []).append(rec)
    json.dump(meta, open(os.path.join(d, "meta.json"), "w"), indent=1)
    print("%-8s exit=%d caught=%s %s" % (name, p.returncode, p.returncode == 1, ",".join(classes)))
    if p.returncode != 1:
        rc_all = 1
sys.exit(rc_all)
