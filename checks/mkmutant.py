#!/usr/bin/env python3
"""mkmutant.py <ID> <name> <repo-rel-file> <old> <new> [--expect silent] [--tier thorough] [--note text]
Creates mutants/<ID>/<name>.patch replacing the unique occurrence of <old> by <new>."""
import sys, os, subprocess, json, tempfile, argparse
ap = argparse.ArgumentParser()
ap.add_argument('id'); ap.add_argument('name'); ap.add_argument('file'); ap.add_argument('old'); ap.add_argument('new')
ap.add_argument('--expect', default='caught'); ap.add_argument('--tier', default='quick'); ap.add_argument('--note', default='')
ap.add_argument('--nth', type=int, default=0, help='1-based occurrence to replace when not unique')
a = ap.parse_args()
src = open(os.path.join('/repo', a.file)).read()
old = a.old.encode().decode('unicode_escape'); new = a.new.encode().decode('unicode_escape')
n = src.count(old)
if n == 0 or (n > 1 and not a.nth):
    sys.exit('pattern occurs %d times in %s' % (n, a.file))
if a.nth:
    idx = -1
    for _ in range(a.nth):
        idx = src.index(old, idx + 1)
    out = src[:idx] + new + src[idx + len(old):]
else:
    out = src.replace(old, new)
d = os.path.join('/verif/mutants', a.id); os.makedirs(d, exist_ok=True)
with tempfile.NamedTemporaryFile('w', suffix='.go', delete=False) as f:
    f.write(out); tmp = f.name
p = subprocess.run(['diff', '-u', '--label', 'a/' + a.file, '--label', 'b/' + a.file, os.path.join('/repo', a.file), tmp], stdout=subprocess.PIPE)
os.unlink(tmp)
open(os.path.join(d, a.name + '.patch'), 'wb').write(p.stdout)
json.dump(dict(expect=a.expect, tier=a.tier, note=a.note), open(os.path.join(d, a.name + '.json'), 'w'))
print(p.stdout.decode())
