"""Registry of checks: how each property's harness is injected, built and sharded."""

K = "kernel/"

import re

def scale_const(path, name, value):
    """Overlay copy of a Go file with `const <name> = N` rewritten (fails loudly if the constant is gone)."""
    src = open(path).read()
    out, n = re.subn(r"(const\s+%s\s*=\s*)\d+" % re.escape(name), r"\g<1>%d" % value, src)
    if n != 1:
        raise SystemExit("HARNESS-ERROR: cannot bind to code: constant %s not found in %s" % (name, path))
    return out

def kernel(pkg, inject, test, level, tiers, **kw):
    d = dict(module="kernel", pkg="./" + pkg, inject=inject, test=test, level=level, tiers=tiers)
    d.update(kw)
    return d

PMM_COMMON = {"harness/pmm/vf_common_test.go": K + "mm/pmm/zz_verif_common_test.go"}

def pmm(files, **kw):
    d = dict(PMM_COMMON)
    for f in files:
        d["harness/pmm/" + f] = K + "mm/pmm/zz_verif_" + f
    return d

CHECKS = {
    "C01": kernel("mm/pmm", pmm(["c01c03_test.go"]), "TestVerifPMM", "model_checking",
                  {"quick": dict(shards=16, timeout=600), "thorough": dict(shards=16, timeout=3000)},
                  assumptions=["memory maps are built from a finite shape alphabet (see coverage.bound); frames are never dereferenced, so only frame numbers matter",
                               "frees of frames that are reserved but were never handed out (kernel image, early-boot frames) are outside the alphabet: neither C01 nor C03 defines them"]),
    "C02": kernel("mm/pmm", pmm(["c01c03_test.go", "c02_test.go"]), "TestVerifC02", "exploration",
                  {"quick": dict(shards=16, timeout=600), "thorough": dict(shards=16, timeout=3000)},
                  assumptions=["only the direction 'no qualifying frame => out of memory' of the OOM clause is an oracle; the early allocator may report OOM while frames above the cursor remain (observed, within the statement, see DESIGN.md C02)"]),
    "C03": kernel("mm/pmm", pmm(["c01c03_test.go"]), "TestVerifPMM", "model_checking",
                  {"quick": dict(shards=16, timeout=600), "thorough": dict(shards=16, timeout=3000)},
                  assumptions=["same exploration as C01 with the accounting / error-contract oracles"]),
    "C13": kernel("device/acpi/aml", {"harness/aml/c13_test.go": K + "device/acpi/aml/zz_verif_c13_test.go"}, "TestVerifC13", "model_checking",
                  {"quick": dict(shards=8, timeout=600), "thorough": dict(shards=16, timeout=3000, budget=1500)},
                  assumptions=["operations are issued only when their documented preconditions hold (child detached, sibling is a child of the parent, freed object has no children)",
                               "names are drawn from {AAAA, BBBB, unnamed}; CCCC is the absent name in lookups"]),
    "C16": dict(module="kernel", level="model_checking",
                tiers={"quick": dict(shards=8, timeout=600), "thorough": dict(shards=16, timeout=3000)},
                parts=[
                    dict(name="ring8", pkg="./kfmt", test="TestVerifC16Ring", inject={"harness/kfmt/c16_ring_test.go": K + "kfmt/zz_verif_c16_ring_test.go"},
                         generate=[dict(dest=K + "kfmt/ringbuf.go", fn=lambda cur, repo: scale_const(cur(K + "kfmt/ringbuf.go"), "ringBufferSize", 8))], shards={"quick": 1, "thorough": 1}),
                    dict(name="ring4", pkg="./kfmt", test="TestVerifC16Ring", inject={"harness/kfmt/c16_ring_test.go": K + "kfmt/zz_verif_c16_ring_test.go"},
                         generate=[dict(dest=K + "kfmt/ringbuf.go", fn=lambda cur, repo: scale_const(cur(K + "kfmt/ringbuf.go"), "ringBufferSize", 4))], shards={"quick": 1, "thorough": 1}),
                    dict(name="ring2048", pkg="./kfmt", test="TestVerifC16Ring", inject={"harness/kfmt/c16_ring_test.go": K + "kfmt/zz_verif_c16_ring_test.go"}, shards={"quick": 1, "thorough": 1}),
                    dict(name="hal", pkg="./hal", test="TestVerifC16Hal", inject={"harness/hal/c16_hal_test.go": K + "hal/zz_verif_c16_hal_test.go", "harness/device/shim.go": K + "device/zz_verif_shim.go"}),
                ],
                assumptions=["ring-buffer search: the constant ringBufferSize is rewritten to 8 and 4 in an overlay copy of ringbuf.go generated from the current tree (all other code is the real code); the shipped size is explored to a bounded depth",
                             "HAL: the registered driver list is replaced through an overlay-only shim in package device; drivers are mocks except the real tty.VT; bring-up messages are matched by driver name / error tokens, not by exact wording"]),
    "C17": kernel("device/tty", {"harness/tty/vt_test.go": K + "device/tty/zz_verif_vt_test.go"}, "TestVerifVT", "model_checking",
                  {"quick": dict(shards=16, timeout=600), "thorough": dict(shards=16, timeout=3000, budget=1500)},
                  assumptions=["the console behind the terminal is a reference cell-grid console (the shipped drivers are bound in C18/C19)",
                               "printable alphabet {a} for fixed-point search, {a,b} for depth-bounded search; colours are the console defaults (the terminal never changes its current colours)"]),
    "C04": kernel("mm/vmm", {"harness/vmm/vf_mmu_test.go": K + "mm/vmm/zz_verif_mmu_test.go", "harness/vmm/c04_test.go": K + "mm/vmm/zz_verif_c04_test.go"}, "TestVerifC04", "model_checking",
                  {"quick": dict(shards=16, timeout=900), "thorough": dict(shards=16, timeout=3400, budget=2400)},
                  assumptions=["page tables live in a simulated RAM arena; the MMU is a software walk bound to the ptePtrFn/nextAddrFn/activePDTFn/switchPDTFn seams (present-bit semantics and recursive mapping only; no TLB, caching attributes or accessed/dirty side effects)",
                               "pages, frames and flag sets come from small alphabets chosen for table sharing and field extremes; the recursive slot (P4 index 511) is outside the contract"]),
    "C05": kernel("mm/vmm", {"harness/vmm/vf_mmu_test.go": K + "mm/vmm/zz_verif_mmu_test.go", "harness/vmm/c04_test.go": K + "mm/vmm/zz_verif_c04_test.go", "harness/vmm/c05_test.go": K + "mm/vmm/zz_verif_c05_test.go"}, "TestVerifC05", "exploration",
                  {"quick": dict(shards=8, timeout=900), "thorough": dict(shards=16, timeout=3000)},
                  assumptions=["ELF sections are fed through the visitElfSectionsFn seam (decoding of the multiboot tag is C10); sections never share a page with one another (the property's precondition)",
                               "kernel offsets whose P4 index is 511 (the recursive window) and the temporary-mapping page are outside the contract"]),
    "C06": kernel("mm/vmm", {"harness/vmm/vf_mmu_test.go": K + "mm/vmm/zz_verif_mmu_test.go", "harness/vmm/c04_test.go": K + "mm/vmm/zz_verif_c04_test.go", "harness/vmm/c06_test.go": K + "mm/vmm/zz_verif_c06_test.go"}, "TestVerifC06", "model_checking",
                  {"quick": dict(shards=16, timeout=900), "thorough": dict(shards=16, timeout=3000)},
                  assumptions=["simulated RAM is a memfd; the virtual data pages the fault handler copies from are host MAP_FIXED aliases of the frame the page tables map them to, re-synchronised after every operation",
                               "a Go panic carrying a *kernel.Error is 'kernel panic, never resumes'; a normal return of the handler is 'resumes the faulting code'"]),
    "C07": kernel("mm/vmm", {"harness/c07/c07_test.go": K + "mm/vmm/zz_verif_c07_test.go"}, "TestVerifC07", "model_checking",
                  {"quick": dict(shards=4, timeout=300), "thorough": dict(shards=4, timeout=1200)},
                  assumptions=["sizes are drawn from a 16-value alphabet relative to the current cursor (0, 1, page-1, page, page+1, 3 pages, cursor-page, cursor-1, cursor, cursor+1, cursor+page, 2^63, 2^64-4096, 2^64-4095, 2^64-101, 2^64-1)",
                               "the page-table writer behind MapRegion/IdentityMapRegion is the recording mapFn seam (its correctness is C04)"]),
}
