"""Registry of checks: how each property's harness is injected, built and sharded."""

K = "kernel/"

def kernel(pkg, inject, test, level, tiers, **kw):
    d = dict(module="kernel", pkg="./" + pkg, inject=inject, test=test, level=level, tiers=tiers)
    d.update(kw)
    return d

CHECKS = {
    "C07": kernel("mm/vmm", {"harness/c07/c07_test.go": K + "mm/vmm/zz_verif_c07_test.go"}, "TestVerifC07", "model_checking",
                  {"quick": dict(shards=4, timeout=300), "thorough": dict(shards=4, timeout=1200)},
                  assumptions=["sizes are drawn from a 16-value alphabet relative to the current cursor (0, 1, page-1, page, page+1, 3 pages, cursor-page, cursor-1, cursor, cursor+1, cursor+page, 2^63, 2^64-4096, 2^64-4095, 2^64-101, 2^64-1)",
                               "the page-table writer behind MapRegion/IdentityMapRegion is the recording mapFn seam (its correctness is C04)"]),
}
