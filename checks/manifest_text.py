"""Human-written texts of MANIFEST.json, per property."""

ENGINES = [
    dict(name="sched (E3) + x86mini (E4)", path="sched/sched.go", serves_properties=["C08", "C09"], kind_free_text="controlled cooperative scheduler for real goroutines (schedule points at every atomic operation and interpreted memory instruction), DFS with iterative preemption bounding and an unbounded state-pruned pass, generic spin detection, vector-clock happens-before race monitor; interpreter for the Plan 9 amd64 subset of spinlock_amd64.s parsed from the current .s text"),
    dict(name="choice (E1)", path="rt/choice.go", serves_properties=["C01", "C02", "C03", "C05", "C10", "C14", "C20"], kind_free_text="deviation-bounded choice-tree explorer: replays a prefix of recorded answers, default answer afterwards, recursion on every alternative within the deviation bound; divergence while replaying is a hard error"),
    dict(name="graph (E2)", path="rt/graph.go", serves_properties=["C01", "C03", "C04", "C06", "C07", "C13", "C16", "C17", "C18"], kind_free_text="explicit-state breadth-first search; every transition calls the real operation on the real data structure; canonical state hashing; invariant / reference-model comparison in every state"),
    dict(name="vcheck driver", path="vcheck", serves_properties=[], kind_free_text="overlay generation from /repo's working tree, go test -c -tags verif, sharded worker subprocesses, result merge, known-findings, evidence"),
]

NOTES = "All checks are bounded-exhaustive model checking of the real Go code (hosted), injected through go build overlays; see DESIGN.md."

NOT_APPLICABLE = {}

TEXT = {
    "C11": dict(
        engine="choice (E1)",
        design_ref="DESIGN.md §3 C11",
        technique="tiered bounded-exhaustive generation of AML programs from the supported grammar subset, encoded by an independent encoder and compared with a reference namespace built from the AST; differential cross-check on an overlay with the kept candidate repair",
        text="T1 every construct (20) x name form (7) x container (13) x PkgLength encoding; T2 59 call/field/operator/module-level programs (method names shadowed at two levels of one ancestor chain, field unit widths around every length-encoding boundary, forward, backward and nested calls, calls inside If/While/Store/Add/DerefOf/Index, calls with operator arguments, calls as the last operand of module-level operators, operators nested in SuperName operands such as SizeOf(DerefOf(Index(..))), module-level code) x containers and every ordered pair of constructs; T3 nested containers; T4 two- and three-table loads on one parser (Scope into / call into an earlier table; later tables after a table with deferred Buffer/While/Package blocks); T5 chains of Scope / relocation blocks that need several resolve passes, in every order. For every program the reference accepts: ParseAML succeeds, every named object is found at the absolute path ACPI scoping gives it with its declared kind, constants/strings/buffer bytes/field offset+width/mutex level carry the encoded values, every method invocation anywhere has exactly the declared number of arguments attached, no named object sits at a path the program does not declare. Failures whose program exhibits one of the two known root causes (by structural predicate) are reported as known findings and must pass on a second build with the kept repair applied through the overlay; any other failure is a violation. Multi-table loads include every ordered pair and triple of tables that each declare field units.",
        note="Programs up to the tier sizes; conditionally declared objects (If at table level) are dynamic and outside the static namespace.",
    ),
    "C12": dict(
        engine="choice (E1) + tick/depth instrumentation",
        design_ref="DESIGN.md §3 C12",
        technique="exhaustive byte-string enumeration and exhaustive single-point mutation / splice enumeration of well-formed seeds through a loop- and call-instrumented copy of the real parser, against a guard page",
        text="(1) every byte string of length <=3 over a 94-byte alphabet and <=4 (5) over a 28-byte alphabet; (2) nine well-formed seeds: every truncation, bit flip, byte substitution, length-style corruption, one-byte insertion/deletion and every splice; (3) the same after a first valid table; (4) generated ill-formed programs (self-referential, dangling and over-long paths on every named construct in every container). Oracles per input: no panic, no access beyond the table (guard page), deterministic step budget 2000+400*len and recursion budget 64+8*len, result nil or the parse error, every byte slice in the tree inside the table, tree well-formed (links agree both ways, acyclic, no freed object reachable), printable after success.",
        note="Three independent corruptions or constructs longer than ~64 bytes are not reached.",
    ),
    "C20": dict(
        engine="choice (E1)",
        design_ref="DESIGN.md §3 C20",
        technique="bounded-exhaustive enumeration of generated source trees x every iteration order of every map-typed range (Go's map iteration turned into an explorer choice by a go/types-driven rewrite) against an independent scanner",
        text="redirects.go is type-checked and every map-typed range in it is rewritten to iterate in an order the explorer chooses; FindRedirects then runs on generated trees (every single item and ordered pair of 11 declaration kinds incl. look-alikes on vars, types, in bodies, detached or trailing comments, prose mentions; triples; multi-file trees with nested directories, _test.go and non-Go files; directory and file names that are prefixes of one another; large files whose annotation starts at every offset around the 4 KiB boundaries 1,2,3,4,16) under every iteration order (full product for one map, deviation-bounded across several). The table must contain exactly the (source symbol, fully qualified destination) pairs an independent go/parser scanner finds on function declarations, and must be identical under every explored iteration order; the kernel tree itself is checked against the scanner. Every tree is journalled, so a fatal exit inside FindRedirects is attributed to its tree and replayed alone (two calls on fresh Contexts must agree).",
        note="Any deterministic order is accepted; the ELF symbol lookup (CompleteRedirects) is outside the property.",
    ),
    "C18": dict(
        engine="graph (E2)",
        design_ref="DESIGN.md §3 C18",
        technique="explicit-state BFS of the real tty.VT with a reference grid console to a fixed point (state includes the console cells); exhaustive event histories on the real VT + shipped console drivers with pixel-exact comparison",
        text="Part 1: the same fixed-point search as C17 with the console's cells in the state: after every event the console equals the terminal's viewport while active, is untouched while inactive, and equals it again after activation. Part 2: the real tty.VT attached to the real VgaTextConsole and VesaFbConsole (depths 8/16/24/32, padded rows, logo rows, remainder strip, synthetic 8x2/9x2 fonts and the shipped 8x16 font; thorough adds 15 bpp, BGR layouts and all shipped fonts): every history of <=5 (4) events over {a, b, CR, LF, BS, TAB, activate, deactivate}; after every event every framebuffer byte must equal the glyph rendering of the viewport cell in its colours, and logo area, row padding and the strip below the grid must be unchanged.",
        note="Part 2 uses the reference terminal of C17 as the expected viewport (the VT's buffer is not visible from package console_test).",
    ),
    "C19": dict(
        engine="choice (E1)",
        design_ref="DESIGN.md §3 C19",
        technique="full product of console geometries x argument boundary values per operation on the real drivers (loop-instrumented for a deterministic watchdog) against a pixel-level reference",
        text="For every framebuffer configuration (grids 1..3 x 1..3, 3-7 fonts 8..16 px wide incl. the shipped ones, depths 8/15/16/24/32 with four mask layouts, pitch padding, logo rows, remainder rows, pristine and fully written pre-states) and every text-mode grid 1..4 x 1..4 and 80x25, Write, Fill and Scroll are called with every argument from {0,1,2,dim-1,dim,dim+1,2^31,2^32-2,2^32-1}: Write changes exactly the addressed cell's pixels (glyph bits in fg, rest in bg, packed for the pixel format) and nothing for off-grid coordinates; Fill changes exactly the clamped+clipped rectangle; Scroll by 1..rows moves the lines and leaves the logo alone, any other count changes nothing; no byte outside the addressed cells, in the padding or outside the framebuffer (bounds panic) is touched; no operation loops beyond 10^6 instrumented iterations. Colours are taken from the reference's own palette: Write/Fill after a palette entry was redefined (incl. colours that pack identically), and after every sequence of <=3 earlier writes, fills and palette redefinitions, must paint with the colours as redefined. Sequences include console re-initialisation with the mapping granted or refused among the earlier operations; sequence cases are journalled so a fatal fault is attributed and replayed alone.",
        note="Vacated lines after a scroll are unconstrained; text-mode colour indices >= 15 only assert 'addressed cell, same character'.",
    ),
    "C10": dict(
        engine="choice (E1)",
        design_ref="DESIGN.md §3 C10",
        technique="bounded-exhaustive enumeration of multiboot2 blocks generated from an AST by an independent encoder, placed flush against an inaccessible page; every decoded field compared with the AST",
        text="9 command lines x 24 memory maps (entry sizes 24/28/32/40, 0-3 entries, every region type in {0..6, 2^32-1}, extreme addresses/lengths) x 4 ELF section tables x 8 framebuffer tags x unknown tags of odd sizes (padding) are encoded into blocks; every tag order is tried on the small blocks, duplicate tags are appended (first must win), each tag is also tried alone and absent. The block and the ELF string table end exactly at a PROT_NONE page, so any read past the end faults. VisitMemRegions, VisitElfSections, GetFramebufferInfo/RGBColorInfo and GetBootCmdLine must report exactly what was encoded.",
        note="Only well-formed blocks; command-line tokens with two '=' are outside the statement.",
    ),
    "C14": dict(
        engine="choice (E1)",
        design_ref="DESIGN.md §3 C14",
        technique="bounded-exhaustive enumeration of firmware memory images through the real probe + DriverInit",
        text="~64k images (thorough: all four tables): root pointer at every admissible 16-byte slot of the search window, revision 0/2, decoys with a valid signature and bad checksum before/after, every order of the listed tables, every subset corrupted, FADT with 32-/64-bit/both DSDT pointers, DSDT valid/corrupt, a root pointer with a bad checksum only, bad-checksum structures corrupted in the first 20 bytes or only in the extended part, of the same or the other revision, arbitrary bytes behind a revision-0 structure, listed tables and DSDTs of 2047..200000 bytes filled with large byte values; plus the first/last admissible slots of the real 0xe0000-0xfffff area. Oracles: the pointer is found iff valid, the 32-bit root table is followed for revision 0 and the 64-bit one otherwise, the registered table map equals {tables whose bytes sum to zero} plus the DSDT of a valid FADT, each corrupt table is reported as skipped exactly once and enumeration continues. After every case the same driver is initialised again on the image with a shortened root table and must agree with a freshly probed driver.",
        note="Identity-map seams; the revision-2 checksum is taken over the 40-byte Go struct (4 bytes after the structure kept zero).",
    ),
    "C15": dict(
        engine="choice (E1)",
        design_ref="DESIGN.md §3 C15",
        technique="bounded-exhaustive enumeration of format token sequences x argument lists against a reference formatter through a non-storing comparing sink; allocation counter over a pre-built batch",
        text="Formats of 1-2 tokens (full product) and 3 tokens (third free) over 48 tokens (literals, %%, %d/%x/%o/%s with widths {absent,0,1,5,31,32,33,1000}, integer widths {256,260,65541}, %258s, %t, a 10^6-wide %s) x 47 argument values (every built-in integer type at 0, +-1, min, max; strings / byte slices of length 0..40; bools; float, nil, struct, uint as wrong types), with too-short and too-long argument lists, are compared byte-exactly with a strconv-based reference written from the statement; the 1-token x argument and 2-token x first-argument products run again with no sink set (Printf and Fprintf(nil) into the early ring buffer, handed over to the first sink and compared). Every format string of length <=4 (5) over 9 bytes never panics. runtime.MemStats.Mallocs does not move across a pre-built batch of 5k calls (bisected to a case if it does).",
        note="Allocation freedom is as compiled by the pinned host toolchain.",
    ),
    "C08": dict(
        engine="sched (E3) + x86mini (E4)",
        design_ref="DESIGN.md §3 C08",
        technique="stateless model checking of the real spinlock (Go methods on an atomic shim + the real assembly text run by an interpreter) under a controlled scheduler: all schedules up to a preemption bound plus an unbounded state-pruned pass, with a happens-before race monitor",
        text="13 (thorough 19) thread configurations of 2-3 (4) threads running acquire/try-acquire/release programs, with yieldFn nil and set, are explored exhaustively for preemption bounds 0..3 (4) and without bound under state pruning. Oracles on every execution: at most one task inside the lock at every step; Acquire/TryToAcquire(true) never return while another task is between acquire and release; TryToAcquire(false) only if somebody held the lock, or was inside a blocking Acquire, at some moment of the call (the call may take several atomic steps); the counter updated inside the lock equals the number of completed critical sections and its accesses are ordered by happens-before (visibility); no deadlock / livelock (spin detection + step horizon); the lock is free at the end (judged by a try-acquire on a copy: no oracle reads the lock word's representation). One directed schedule per yieldFn setting runs 257 tasks that call Acquire together in lock step (more callers than an 8-bit count holds). The interpreter is bound to the hardware by running all 1092 sequential traces of length <=6 on both the interpreted and the assembled routine against the sequential lock model.",
        note="Sequentially consistent exploration (see DESIGN.md §4 for the TSO argument; plain loads of the lock word are acquire edges for the race monitor, as on x86); the interpreter covers MOV/XCHG/XADD/CMPXCHG/arithmetic/shift/compare (8-64 bit), stack slots and the conditional jumps - an instruction outside it ends the check with exit 2 (no verdict), never with a violation; 2-4 threads x <=3 operations stand for 'any number of tasks'; the 16-thread free-running run on the real assembly is a sampled supplement, never the verdict.",
    ),
    "C09": dict(
        engine="sched (E3) + x86mini (E4)",
        design_ref="DESIGN.md §3 C09",
        technique="stateless model checking of the real AllocFrame/FreeFrame over the instrumented spinlock: preemption-bounded DFS + unbounded state-pruned pass, ownership table, brute-force linearizability, happens-before monitor on go/ast-inserted field hooks",
        text="11 (thorough 17) configurations - pools of 1, 2, 1+2 and 65 frames with 63/64 pre-held (collisions inside one bitmap word and across the word boundary), 2-4 (5) callers with <=3 (4) operations from {alloc, free own newest/oldest, racing free of one shared frame, free of an unmanaged frame} - are explored for preemption bounds 0..2 and without bound. Oracles: no frame handed to two holders; call/return history linearizable against the sequential allocator model (brute force over the <=9 calls); reservedPages / pool free counts equal initial + allocations - frees once all callers stopped; a final sequential drain recovers exactly the un-held frames; lock free at the end; no deadlock; no happens-before race on any allocator field that AllocFrame/FreeFrame assign, whether it is reached through the receiver or through a local pointer into the receiver's state. Pool layouts include pools two frames apart (inside one another's bitmap padding span) and regions listed in descending address order.",
        note="Pools are built by the real pmm.Init from a tiny multiboot map; 'up to 16 callers' is covered for 2-5 callers.",
    ),
    "C04": dict(
        engine="graph (E2) + software MMU",
        design_ref="DESIGN.md §3 C04",
        technique="explicit-state BFS over the real page-table operations on a simulated RAM + software MMU; exhaustive leaf scan of both address spaces against a reference map after every operation",
        text="All histories of length <=2 over a 1330-operation alphabet (7 pages spread over all four table levels incl. the temporary-mapping page, 3 frames incl. 2^40-1, 5 flag sets incl. non-present, active/inactive/explicit address spaces, Activate, MapRegion/IdentityMapRegion, allocation failure at each of the first 3 allocations) from the empty state, and length <=2 (quick) / <=3 (thorough) over a reduced alphabet from five non-initial start states (all pages mapped, deepest page, second space built, second space active, planted huge page). After every operation every present leaf reachable from both roots must equal the reference bit for bit (frame + exactly the requested flags, nothing stray: this also catches uncleared new tables), Translate must agree, an operation on the inactive space must leave every table of the active space byte-identical, every changed page of the active space must have been TLB-invalidated, and an allocation failure must return that error with no translation changed. Start states include roots whose recursive slots carry Accessed/Dirty resp. NX/Global bits, so that an operation on the inactive space must restore the active root bit for bit.",
        note="Simulated MMU: present-bit semantics + recursive mapping only; no TLB model, caching attributes or accessed/dirty side effects; data values outside the alphabets are not explored.",
    ),
    "C05": dict(
        engine="choice (E1) + software MMU",
        design_ref="DESIGN.md §3 C05",
        technique="bounded-exhaustive enumeration of ELF section sets, reservations and allocation-failure points through the real setupPDTForKernel; exhaustive scan of the new root",
        text="Every single section over the shape set (start offsets {0,1,0x10,0x800,0xff0,0xfff} x sizes ending one byte before / at / one / two bytes after a page boundary over 1-3 pages x W/A/X flag sets) x 5 bases x {0,1,3} reservations, every assignment of 5 frames (two runs and a foreign frame) to 1-4 reserved pages, section pairs (full product in thorough), adjacent-page and three-section sets, many-page sections, three kernel offsets and allocation failure at each of the first 14 allocations run through the real setupPDTForKernel on the software MMU. The new root is scanned exhaustively: every page of every in-range section maps to (addr-offset)>>12+i with P, RW iff writable, NX iff not executable, never user; early reservations keep their translation; nothing else is mapped; CR3 is the new root on success and unchanged on failure. Boot-time reservation histories that contain rejected requests (every sequence of <=3/4 requests) precede the set-up as well.",
        note="Sections are delivered through the visitElfSectionsFn seam (decoding is C10) and never share a page (the property's precondition).",
    ),
    "C06": dict(
        engine="software MMU with host-aliased data pages",
        design_ref="DESIGN.md §3 C06",
        technique="exhaustive enumeration of fault situations (leaf flag product x upper-level presence x environment failures) and of fault sequences on the real page-fault handler; exhaustive guard enumeration over all mapping entry points",
        text="The real reserveZeroedFrame, pageFaultHandler, MapTemporary and Unmap run on memfd-backed simulated RAM whose data pages are host aliases of the mapped frames. Guard: 6 mapping entry points x 32 flag subsets x {zero frame, other frame} x pages - after every call no present writable leaf to the zero frame exists in any address space. Faults: all 128 leaf flag combinations x each upper level non-present x {allocation, temporary-mapping, unmap} failures x offsets x error codes x {zero frame, shared data frame}: recoverable iff present, read-only, copy-on-write, all levels present and no failure; then the page maps a freshly allocated frame with the old flags minus CoW plus RW, contents equal what the page showed, the shared frame and every other entry untouched, TLB entry invalidated; otherwise a kernel-error panic and no entry changed. Sequences of up to 4 (6) faults over three pages sharing a frame, including repeated faults and writes through the private copies. Leaf flag sets cover the full 2^11 product of architectural bits (write-through, cache-disable, PAT/bit 7, global included).",
        note="'Resumes' = the handler returns; 'kernel panic' = Go panic with a *kernel.Error. GPF handler is not exercised.",
    ),
    "C13": dict(
        engine="graph (E2)",
        design_ref="DESIGN.md §3 C13",
        technique="explicit-state BFS over the real ObjectTree operations with a reference tree; exhaustive lookup-expression enumeration in every state",
        text="All histories of newObject/append/appendAfter/detach/free (issued under their documented preconditions) on a pool of <=4 (thorough 5) objects beyond the root are explored to depth 7 (9) with deduplication on the complete pool + free list. In every state the parent/sibling/first/last links, ArgAt/NumArgs, freed-object unreachability and LIFO slot reuse are compared with a reference tree, and 410 lookup expressions (all prefix forms, 0-3 segments, embedded dual/multi-name bytes, too-short tails including proper prefixes of existing names behind prefix bytes) are resolved by the real Find from every live scope and compared with a resolver written from the ACPI search rules; ClosestNamedAncestor likewise.",
        note="Names {AAAA,BBBB,unnamed}; deeper trees than 5 objects are not explored. Lookup is checked over 'each node's children as its scope' (the property's reading), not through ScopeBlock transparency (see C11 known findings).",
    ),
    "C16": dict(
        engine="graph (E2) + choice (E1)",
        design_ref="DESIGN.md §3 C16",
        technique="explicit-state search of the real ring buffer / sink hand-over at scaled sizes (fixed point) and shipped size (bounded depth); bounded-exhaustive enumeration of driver sets through the real hal.DetectHardware",
        text="Part 1: the real kfmt ring buffer, Printf and SetOutputSink are searched to a fixed point of (rIndex,wIndex,sink) with the ring size constant scaled to 8 and 4, and to depth 8 (thorough: 48) at the shipped size, against a drop-oldest FIFO reference with labelled bytes (loss, duplication, reordering visible). Part 2: every ordered tuple of <=3 drivers (4 in thorough, reduced alphabet) over kind x outcome x detection order x early-log size is booted through the real DetectHardware; probe order, active set, first-console/first-terminal rule, attachment, state, sink and the exactly-once in-order delivery of the early log ahead of later output are checked; with the real tty.VT the console content is compared differentially with a terminal fed the recorder's stream. A complete bring-up line may name at most one registered driver (attribution).",
        note="Drivers are mocks (plus the real tty.VT; mock terminals refuse output while unattached, as tty.VT does); bring-up log lines are matched by tokens, not exact wording; ring sizes 8/4 come from an overlay copy of ringbuf.go with only the constant changed.",
    ),
    "C17": dict(
        engine="graph (E2)",
        design_ref="DESIGN.md §3 C17",
        technique="explicit-state BFS of the real tty.VT to a fixed point of reachable states per geometry, against a reference terminal",
        text="For every console geometry with <=9 (thorough 12) buffer cells (width/height 1..4, scrollback 0..2, tab width {0,1,2,5}) every reachable terminal state under {printable, CR, LF, BS, TAB, multi-byte Write, cursor moves incl. 0 / dim+1 / 2^32-1, activate, deactivate} is visited; after every event cursor, viewport origin and every (char, fg, bg) cell of buffer and scrollback must equal a reference terminal written from the statement; a Go bounds panic (how an out-of-buffer write manifests) is a violation. Two printable symbols are used on smaller geometries and to a bounded depth on larger ones; the shipped 80x25/scrollback-80/tab-4 geometry and six consoles wider than very wide tabs (86..255) are driven with structured streams (every ordered pair/triple of events repeated past two full scrolls).",
        note="Colours are the console defaults (no API changes the current colours); the console behind the terminal is a reference grid (shipped drivers: C18/C19).",
    ),
    "C01": dict(
        engine="graph (E2)",
        design_ref="DESIGN.md §3 C01",
        technique="explicit-state search of the real allocator (held-set graph to a fixed point) under bounded-exhaustive enumeration of boot configurations",
        text="For every memory map built from the shape alphabet (<=2 regions plus 3 regions over reduced shapes - frames {1,2} quick, {0,1,2} thorough; unaligned, sub-page, reserved and unknown types), every kernel placement and every early-allocation pattern, the real pmm.Init is run on a real multiboot block and then every reachable ownership state of the bitmap allocator is visited by BFS (snapshot/restore of the complete allocator state); in every state each frame returned by AllocFrame must be in the reference usable set and not held. Word-boundary pools (1,63,64,65,128,129 frames) are drained and probed with single and pairwise frees.",
        note="Frame numbers are only bookkeeping (never dereferenced); region sizes beyond the alphabet and maps with more than 3 regions are not explored; concurrency is C09.",
    ),
    "C02": dict(
        engine="choice (E1)",
        design_ref="DESIGN.md §3 C02",
        technique="bounded-exhaustive enumeration of boot configurations; each drives the real early allocator to exhaustion and replays every prefix",
        text="Every memory map of up to 4 regions from the shape alphabet and every kernel placement is run through the real BootMemAllocator until out-of-memory; each returned frame is compared with a reference computed by plain integer arithmetic (inside available RAM, outside the kernel, strictly ascending), OOM must be sticky and well-formed, and the hand-over replay of every prefix length must reproduce the sequence.",
        note="Only 'no qualifying frame => OOM' is asserted for the OOM clause; early OOM with frames left is within the statement (DESIGN.md C02).",
    ),
    "C03": dict(
        engine="graph (E2)",
        design_ref="DESIGN.md §3 C03",
        technique="same explicit-state search as C01 with accounting and error-contract oracles in every state",
        text="Over the same configurations and reachable allocator states as C01: Init may only succeed or report out-of-memory (a panic is a violation); exactly |usable| allocations succeed; totalPages/reservedPages/pool free counts equal the reference in every state; FreeFrame of an unmanaged or free frame returns the right error and leaves the state bit-identical; FreeFrame of a held frame leads to exactly the state in which that frame is allocatable again.",
        note="Frees of kernel-image / early-boot frames (reserved but never handed out) are outside the alphabet.",
    ),
    "C07": dict(
        engine="graph (E2)",
        design_ref="DESIGN.md §3 C07",
        technique="explicit-state BFS over the real reservation functions with a big-integer-free overflow-exact reference oracle",
        text="Every operation sequence up to the stated depth over a cursor-relative size alphabet (including sizes around the remaining space and around 2^64) is executed on the real EarlyReserveRegion/MapRegion/IdentityMapRegion; in every state the returned region is checked for alignment, size, disjointness from all earlier regions and the exact set of page->frame pairs (in whatever order they are mapped; after an injected mapping failure, what stays mapped must be a subset of it). Regions of 511..1537 pages placed after reservations of 0..513 pages (one to four last-level tables' worth, at different offsets inside a table) are mapped completely and with a failure at call 600. The state of the mechanism is a single integer, so the search visits every reachable (cursor, lowest-region) pair of that alphabet.",
        note="Size values outside the alphabet are not explored; page-table writes go to a recording seam (C04 covers the real writer).",
    ),
}
