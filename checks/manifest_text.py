"""Human-written texts of MANIFEST.json, per property."""

ENGINES = [
    dict(name="choice (E1)", path="rt/choice.go", serves_properties=["C01", "C02", "C03", "C05", "C10", "C14", "C20"], kind_free_text="deviation-bounded choice-tree explorer: replays a prefix of recorded answers, default answer afterwards, recursion on every alternative within the deviation bound; divergence while replaying is a hard error"),
    dict(name="graph (E2)", path="rt/graph.go", serves_properties=["C01", "C03", "C04", "C06", "C07", "C13", "C16", "C17", "C18"], kind_free_text="explicit-state breadth-first search; every transition calls the real operation on the real data structure; canonical state hashing; invariant / reference-model comparison in every state"),
    dict(name="vcheck driver", path="vcheck", serves_properties=[], kind_free_text="overlay generation from /repo's working tree, go test -c -tags verif, sharded worker subprocesses, result merge, known-findings, evidence"),
]

NOTES = "All checks are bounded-exhaustive model checking of the real Go code (hosted), injected through go build overlays; see DESIGN.md."

NOT_APPLICABLE = {}

TEXT = {
    "C01": dict(
        engine="graph (E2)",
        design_ref="DESIGN.md §3 C01",
        technique="explicit-state search of the real allocator (held-set graph to a fixed point) under bounded-exhaustive enumeration of boot configurations",
        text="For every memory map built from the shape alphabet (<=2 regions quick, 3 in thorough; unaligned, sub-page, reserved and unknown types), every kernel placement and every early-allocation pattern, the real pmm.Init is run on a real multiboot block and then every reachable ownership state of the bitmap allocator is visited by BFS (snapshot/restore of the complete allocator state); in every state each frame returned by AllocFrame must be in the reference usable set and not held. Word-boundary pools (1,63,64,65,128,129 frames) are drained and probed with single and pairwise frees.",
        note="Frame numbers are only bookkeeping (never dereferenced); region sizes beyond the alphabet and maps with more than 3 regions are not explored; concurrency is C09.",
    ),
    "C02": dict(
        engine="choice (E1)",
        design_ref="DESIGN.md §3 C02",
        technique="bounded-exhaustive enumeration of boot configurations; each drives the real early allocator to exhaustion and replays every prefix",
        text="Every memory map of up to 4 regions from the shape alphabet and every kernel placement is run through the real BootMemAllocator until out-of-memory; each returned frame is compared with a reference computed by plain integer arithmetic (inside available RAM, outside the kernel, strictly ascending), OOM must be sticky and well-formed, and the hand-over replay of every prefix length must reproduce the sequence.",
        note="Only 'no qualifying frame => OOM' is asserted for the OOM clause; early OOM with frames left is within the statement (DESIGN.md C02).",
    ),
    "C03": dict(
        engine="graph (E2)",
        design_ref="DESIGN.md §3 C03",
        technique="same explicit-state search as C01 with accounting and error-contract oracles in every state",
        text="Over the same configurations and reachable allocator states as C01: Init may only succeed or report out-of-memory (a panic is a violation); exactly |usable| allocations succeed; totalPages/reservedPages/pool free counts equal the reference in every state; FreeFrame of an unmanaged or free frame returns the right error and leaves the state bit-identical; FreeFrame of a held frame leads to exactly the state in which that frame is allocatable again.",
        note="Frees of kernel-image / early-boot frames (reserved but never handed out) are outside the alphabet.",
    ),
    "C07": dict(
        engine="graph (E2)",
        design_ref="DESIGN.md §3 C07",
        technique="explicit-state BFS over the real reservation functions with a big-integer-free overflow-exact reference oracle",
        text="Every operation sequence up to the stated depth over a cursor-relative size alphabet (including sizes around the remaining space and around 2^64) is executed on the real EarlyReserveRegion/MapRegion/IdentityMapRegion; in every state the returned region is checked for alignment, size, disjointness from all earlier regions and exact page->frame pairs. The state of the mechanism is a single integer, so the search visits every reachable (cursor, lowest-region) pair of that alphabet.",
        note="Size values outside the alphabet are not explored; page-table writes go to a recording seam (C04 covers the real writer).",
    ),
}
