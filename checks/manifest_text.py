"""Human-written texts of MANIFEST.json, per property."""

ENGINES = [
    dict(name="choice (E1)", path="rt/choice.go", serves_properties=["C01", "C02", "C03", "C05", "C10", "C14", "C20"], kind_free_text="deviation-bounded choice-tree explorer: replays a prefix of recorded answers, default answer afterwards, recursion on every alternative within the deviation bound; divergence while replaying is a hard error"),
    dict(name="graph (E2)", path="rt/graph.go", serves_properties=["C01", "C03", "C04", "C06", "C07", "C13", "C16", "C17", "C18"], kind_free_text="explicit-state breadth-first search; every transition calls the real operation on the real data structure; canonical state hashing; invariant / reference-model comparison in every state"),
    dict(name="vcheck driver", path="vcheck", serves_properties=[], kind_free_text="overlay generation from /repo's working tree, go test -c -tags verif, sharded worker subprocesses, result merge, known-findings, evidence"),
]

NOTES = "All checks are bounded-exhaustive model checking of the real Go code (hosted), injected through go build overlays; see DESIGN.md."

NOT_APPLICABLE = {}

TEXT = {
    "C07": dict(
        engine="graph (E2)",
        design_ref="DESIGN.md §3 C07",
        technique="explicit-state BFS over the real reservation functions with a big-integer-free overflow-exact reference oracle",
        text="Every operation sequence up to the stated depth over a cursor-relative size alphabet (including sizes around the remaining space and around 2^64) is executed on the real EarlyReserveRegion/MapRegion/IdentityMapRegion; in every state the returned region is checked for alignment, size, disjointness from all earlier regions and exact page->frame pairs. The state of the mechanism is a single integer, so the search visits every reachable (cursor, lowest-region) pair of that alphabet.",
        note="Size values outside the alphabet are not explored; page-table writes go to a recording seam (C04 covers the real writer).",
    ),
}
