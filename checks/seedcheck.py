#!/usr/bin/env python3
"""seedcheck.py <ID> [<outdir>] [--checks C01,C03]

Confirms a seeded change produced by an independent sub-agent and records it under /verif/seeded/<ID>/:
  1. the patch applies to a clean scratch worktree of /repo's HEAD,
  2. the repository's pinned suite still passes with it (compared against /root/.vp/BASELINE.json),
  3. the demonstration fails with the change and passes without it,
  4. our check(s) for the property are run against it (patch applied to /repo, undone straight afterwards).
Nothing is ever committed to /repo.
"""
import json, os, re, shutil, subprocess, sys, time

VERIF = "/verif"
ENV = dict(os.environ, GOFLAGS="-mod=mod", GOPROXY="off", GOSUMDB="off", GOTOOLCHAIN="local", VERIF_NO_EVIDENCE="1")


def sh(cmd, cwd=None, timeout=1800):
    p = subprocess.run(cmd, cwd=cwd, env=ENV, stdout=subprocess.PIPE, stderr=subprocess.STDOUT, timeout=timeout, shell=isinstance(cmd, str))
    return p.returncode, p.stdout.decode("utf-8", "replace")


def baseline(root):
    base = json.load(open("/root/.vp/BASELINE.json"))
    passed = set()
    for mod in ("kbuild", "kernel"):
        rc, out = sh(["go", "test", "-json", "-vet=off", "-count=1", "-timeout", "120s", "./..."], cwd=os.path.join(root, mod))
        for line in out.splitlines():
            try:
                ev = json.loads(line)
            except Exception:
                continue
            if ev.get("Action") == "pass" and ev.get("Test"):
                passed.add("%s::%s" % (ev["Package"], ev["Test"]))
    missing = sorted(set(base["stable_pass"]) - passed)
    return not missing, missing


def main():
    pid = sys.argv[1]
    out = sys.argv[2] if len(sys.argv) > 2 and not sys.argv[2].startswith("--") else "/tmp/seed-out/" + pid
    checks = [pid]
    for a in sys.argv[2:]:
        if a.startswith("--checks"):
            checks = a.split("=", 1)[1].split(",")
    meta = json.load(open(os.path.join(out, "meta.json")))
    patch = os.path.join(out, "patch.diff")
    phase = os.environ.get("SEEDCHECK_PHASE", "")  # "confirm": worktree part only (parallelisable); "check": /repo part only
    if phase == "check":
        rec = json.load(open(os.path.join(out, "confirm.json")))
        return repo_checks(rec, patch, checks)
    wt = "/tmp/seedver-%s-%d" % (pid, os.getpid())
    sh(["git", "-C", "/repo", "worktree", "remove", "--force", wt])
    rc, o = sh(["git", "-C", "/repo", "worktree", "add", "--detach", wt, "HEAD"])
    if rc != 0:
        sys.exit("cannot create worktree: " + o)
    rec = dict(property=pid, confirmed_at=time.strftime("%Y-%m-%d %H:%M"), ran=[])
    try:
        rc, o = sh(["git", "apply", "--check", patch], cwd=wt)
        rec["patch_applies"] = rc == 0
        if rc != 0:
            rec["note"] = "patch does not apply to the current HEAD: " + o[-400:]
            return rec
        demo_src = os.path.join(out, meta.get("demo_file", ""))
        demo_dest = os.path.join(wt, meta.get("demo_dest", ""))
        demo_cmd = meta.get("demo_cmd", "")
        # which module to run the demo in
        m = re.match(r"(kernel|kbuild)/", meta.get("demo_dest", ""))
        demo_cwd = os.path.join(wt, m.group(1)) if m else wt
        if os.path.isdir(demo_dest):
            demo_dest = os.path.join(demo_dest, os.path.basename(demo_src))

        def run_demo():
            os.makedirs(os.path.dirname(demo_dest), exist_ok=True)
            shutil.copy(demo_src, demo_dest)
            cmd = re.sub(r"/tmp/seed\d*-%s\b" % pid, wt, demo_cmd)
            # commands are written relative to the repository root ("cd kernel && go test ...") or with absolute paths
            cwd = wt if re.search(r"(^|[;&] *)cd (kernel|kbuild)\b", cmd) or wt in cmd else demo_cwd
            rc, o = sh("export GOFLAGS=-mod=mod GOPROXY=off GOSUMDB=off GOTOOLCHAIN=local; " + cmd, cwd=cwd, timeout=900)
            os.remove(demo_dest)
            return rc, o

        rc0, o0 = run_demo()
        rec["demo_passes_without_change"] = rc0 == 0
        rec["ran"].append("demo on clean tree: rc=%d" % rc0)
        sh(["git", "apply", patch], cwd=wt)
        ok, missing = baseline(wt)
        rec["existing_tests_pass_with_change"] = ok
        rec["ran"].append("pinned suite with change: %s" % ("all 265 baseline tests pass" if ok else "no longer passing: " + ", ".join(missing[:5])))
        rc1, o1 = run_demo()
        rec["demo_fails_with_change"] = rc1 != 0
        rec["ran"].append("demo with change: rc=%d" % rc1)
        rec["demo_output_with_change"] = o1[-600:]
    finally:
        sh(["git", "-C", "/repo", "worktree", "remove", "--force", wt])
    if phase == "confirm":
        json.dump(rec, open(os.path.join(out, "confirm.json"), "w"), indent=1)
        return rec
    return repo_checks(rec, patch, checks)


def repo_checks(rec, patch, checks):
    # our checks against it
    rec["checks"] = {}
    rc, o = sh(["git", "-C", "/repo", "apply", patch])
    if rc != 0:
        rec["note"] = "git -C /repo apply failed: " + o
    else:
        try:
            for c in checks:
                rc, o = sh(["timeout", "1500", os.path.join(VERIF, "vcheck"), c, "--tier", "quick"], cwd=VERIF, timeout=1600)
                classes = sorted(set(re.findall(r"class=(\S+)", o)))
                rec["checks"][c] = dict(exit=rc, caught=(rc == 1), classes=classes, first=(re.findall(r"VIOLATION[^\n]*", o) or [""])[0][:400])
                rec["ran"].append("./vcheck %s --tier quick with the change applied to /repo: exit %d %s" % (c, rc, ",".join(classes)))
        finally:
            sh(["git", "-C", "/repo", "checkout", "--", "."])
            sh(["git", "-C", "/repo", "clean", "-fdq"])
    return rec


if __name__ == "__main__":
    pid = sys.argv[1]
    out = sys.argv[2] if len(sys.argv) > 2 and not sys.argv[2].startswith("--") else "/tmp/seed-out/" + pid
    rec = main()
    print(json.dumps(rec, indent=1)[:3000])
    if os.environ.get("SEEDCHECK_PHASE", "") == "confirm":
        sys.exit(0)
    keep = rec.get("patch_applies") and rec.get("existing_tests_pass_with_change") and rec.get("demo_fails_with_change") and rec.get("demo_passes_without_change")
    rec["kept"] = bool(keep)
    if keep:
        d = os.path.join(VERIF, "seeded", pid)
        n = 1
        while os.path.exists(d):
            n += 1
            d = os.path.join(VERIF, "seeded", "%s-%d" % (pid, n))
        os.makedirs(d)
        meta = json.load(open(os.path.join(out, "meta.json")))
        shutil.copy(os.path.join(out, "patch.diff"), d)
        if meta.get("demo_file") and os.path.exists(os.path.join(out, meta["demo_file"])):
            shutil.copy(os.path.join(out, meta["demo_file"]), d)
        meta["confirmation"] = rec
        json.dump(meta, open(os.path.join(d, "meta.json"), "w"), indent=1)
        print("kept as", d)
    else:
        print("NOT kept")
