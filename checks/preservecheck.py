#!/usr/bin/env python3
"""preservecheck.py <ID> <outdir>

Confirms a property-PRESERVING change produced by an independent sub-agent (a refactor / alternative implementation
that keeps the property) and runs our check against it; the check must stay silent (exit 0). Recorded under
/verif/preserving/<ID>[-n]/. The patch reaches the check through the build overlay (./vcheck --mutant), /repo is
not touched.
  1. the patch applies to a clean scratch worktree of /repo's HEAD,
  2. the pinned suite still passes with it,
  3. the demonstration passes without and with the change,
  4. ./vcheck <ID> --tier quick --mutant patch.diff : exit 0 expected; a VIOLATION is classified by hand afterwards.
"""
import json, os, re, shutil, subprocess, sys, time
sys.path.insert(0, os.path.dirname(os.path.abspath(__file__)))
import seedcheck as sc

VERIF = "/verif"


def main():
    pid, out = sys.argv[1], sys.argv[2]
    meta = json.load(open(os.path.join(out, "meta.json")))
    patch = os.path.join(out, "patch.diff")
    wt = "/tmp/keepver-%s-%d" % (pid, os.getpid())
    rc, o = sc.sh(["git", "-C", "/repo", "worktree", "add", "--detach", wt, "HEAD"])
    if rc != 0:
        sys.exit("cannot create worktree: " + o)
    rec = dict(property=pid, confirmed_at=time.strftime("%Y-%m-%d %H:%M"), ran=[])
    try:
        rc, o = sc.sh(["git", "apply", "--check", patch], cwd=wt)
        rec["patch_applies"] = rc == 0
        if rc != 0:
            rec["note"] = o[-400:]
            return rec, meta
        demo_src = os.path.join(out, meta.get("demo_file", ""))
        demo_dest = os.path.join(wt, meta.get("demo_dest", ""))
        if os.path.isdir(demo_dest):
            demo_dest = os.path.join(demo_dest, os.path.basename(demo_src))
        m = re.match(r"(kernel|kbuild)/", meta.get("demo_dest", ""))
        demo_cwd = os.path.join(wt, m.group(1)) if m else wt

        def run_demo():
            os.makedirs(os.path.dirname(demo_dest), exist_ok=True)
            shutil.copy(demo_src, demo_dest)
            cmd = re.sub(r"/tmp/keep\d*-%s\b" % pid, wt, meta.get("demo_cmd", ""))
            cwd = wt if re.search(r"(^|[;&] *)cd (kernel|kbuild)\b", cmd) or wt in cmd else demo_cwd
            rc, o = sc.sh("export GOFLAGS=-mod=mod GOPROXY=off GOSUMDB=off GOTOOLCHAIN=local; " + cmd, cwd=cwd, timeout=900)
            os.remove(demo_dest)
            return rc, o

        rc0, _ = run_demo()
        rec["demo_passes_without_change"] = rc0 == 0
        sc.sh(["git", "apply", patch], cwd=wt)
        ok, missing = sc.baseline(wt)
        rec["existing_tests_pass_with_change"] = ok
        rec["ran"].append("pinned suite with change: %s" % ("all baseline tests pass" if ok else "no longer passing: " + ", ".join(missing[:5])))
        rc1, o1 = run_demo()
        rec["demo_passes_with_change"] = rc1 == 0
        if rc1 != 0:
            rec["demo_output_with_change"] = o1[-600:]
    finally:
        sc.sh(["git", "-C", "/repo", "worktree", "remove", "--force", wt])
    rc, o = sc.sh(["timeout", "1500", os.path.join(VERIF, "vcheck"), pid, "--tier", "quick", "--mutant", patch], cwd=VERIF, timeout=1600)
    classes = sorted(set(re.findall(r"class=(\S+)", o)))
    rec["check"] = dict(exit=rc, silent=(rc == 0), classes=classes, first=(re.findall(r"VIOLATION[^\n]*", o) or re.findall(r"HARNESS-ERROR[^\n]*", o) or [""])[0][:500])
    return rec, meta


if __name__ == "__main__":
    rec, meta = main()
    pid, out = sys.argv[1], sys.argv[2]
    print(json.dumps(rec, indent=1)[:2500])
    ok = rec.get("patch_applies") and rec.get("existing_tests_pass_with_change") and rec.get("demo_passes_without_change") and rec.get("demo_passes_with_change")
    rec["confirmed"] = bool(ok)
    d = os.path.join(VERIF, "preserving", pid)
    n = 1
    while os.path.exists(d):
        n += 1
        d = os.path.join(VERIF, "preserving", "%s-%d" % (pid, n))
    os.makedirs(d)
    shutil.copy(os.path.join(out, "patch.diff"), d)
    if meta.get("demo_file") and os.path.exists(os.path.join(out, meta["demo_file"])):
        shutil.copy(os.path.join(out, meta["demo_file"]), d)
    meta["confirmation"] = rec
    json.dump(meta, open(os.path.join(d, "meta.json"), "w"), indent=1)
    print("recorded as", d)
