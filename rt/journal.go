//go:build verif
// +build verif

package verifrt

import (
	"os"
	"syscall"
)

// The journal is a small MAP_SHARED file into which a worker writes the case
// it is about to run. Writing is a memory copy (no syscall); the content
// survives the process being killed by a fatal runtime error or a timeout, so
// the driver can attribute the death to an input and replay it alone.

const journalSize = 1 << 16

var journalMem []byte
var journalTried bool

func journalInit() {
	journalTried = true
	p := os.Getenv("VERIF_JOURNAL")
	if p == "" {
		return
	}
	f, err := os.OpenFile(p, os.O_CREATE|os.O_RDWR|os.O_TRUNC, 0644)
	if err != nil {
		return
	}
	defer f.Close()
	if err := f.Truncate(journalSize); err != nil {
		return
	}
	mem, err := syscall.Mmap(int(f.Fd()), 0, journalSize, syscall.PROT_READ|syscall.PROT_WRITE, syscall.MAP_SHARED)
	if err != nil {
		return
	}
	journalMem = mem
}

// JournalBytes records the case about to run (truncated to the journal size).
func JournalBytes(b []byte) {
	if !journalTried {
		journalInit()
	}
	if journalMem == nil {
		return
	}
	n := len(b)
	if n > journalSize-8 {
		n = journalSize - 8
	}
	// length header last, so a torn write is detectable
	journalMem[0], journalMem[1], journalMem[2], journalMem[3] = 0, 0, 0, 0
	copy(journalMem[8:], b[:n])
	journalMem[0] = byte(n)
	journalMem[1] = byte(n >> 8)
	journalMem[2] = byte(n >> 16)
	journalMem[3] = 1
}

// JournalJSON records a JSON-able replay payload.
func JournalJSON(v interface{}) { JournalBytes([]byte(JSONKey(v))) }

// JournalClear marks "no case in flight".
func JournalClear() {
	if journalMem != nil {
		journalMem[3] = 0
	}
}
