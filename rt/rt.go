//go:build verif
// +build verif

// Package verifrt is the runtime shared by every model-checking harness that
// the /verif driver injects into the Firefly packages through `go test
// -overlay`. It owns: sharding, result/evidence accounting, violation
// recording with replay files, the deviation-bounded choice explorer (E1) and
// the explicit-state BFS engine (E2).
package verifrt

import (
	"crypto/sha1"
	"encoding/hex"
	"encoding/json"
	"fmt"
	"io/ioutil"
	"os"
	"regexp"
	"sort"
	"strconv"
	"strings"
	"time"
)

// Violation describes one failing case.
type Violation struct {
	Property string      `json:"property"`
	Class    string      `json:"class"`
	Key      string      `json:"key"` // stable identity of the failing input/history
	Desc     string      `json:"desc"`
	Replay   interface{} `json:"replay"`
}

// Result is what a worker writes for the driver.
type Result struct {
	Property      string                 `json:"property"`
	Tier          string                 `json:"tier"`
	Shard         int                    `json:"shard"`
	NShards       int                    `json:"nshards"`
	Evaluations   int64                  `json:"evaluations"`
	States        int64                  `json:"states"`
	Transitions   int64                  `json:"transitions"`
	Traces        int64                  `json:"traces"`
	DistinctKeys  []string               `json:"distinct"` // hashed keys of distinct non-trivial cases
	DistinctCount int64                  `json:"distinct_count"`
	Samples       []interface{}          `json:"samples"`
	Violations    []Violation            `json:"violations"`
	NViolations   int64                  `json:"nviolations"`
	ClassCounts   map[string]int64       `json:"class_counts"`
	Exhaustive    bool                   `json:"exhaustive"`
	Bound         string                 `json:"bound"`
	Rule          string                 `json:"rule"`
	Notes         []string               `json:"notes"`
	Extra         map[string]interface{} `json:"extra"`
	Counters      map[string]int64       `json:"counters"`
	WallS         float64                `json:"wall_s"`
	Done          bool                   `json:"done"`
	Known         map[string]*KnownHit   `json:"known"`
}

// KnownHit counts violations that matched an entry of known_findings.json.
type KnownHit struct {
	Count   int64      `json:"count"`
	Witness *Violation `json:"witness"`
}

type knownEntry struct {
	Property string `json:"property"`
	ID       string `json:"id"`
	Status   string `json:"status"` // "known" suppresses; "fixed" suppresses nothing
	Class    string `json:"class"`  // exact class, or "" for any
	KeyRE    string `json:"key_regex"`
	re       *regexp.Regexp
}

// Run is the per-worker context.
type Run struct {
	Result
	start      time.Time
	distinct   map[[8]byte]struct{}
	out        string
	replayPath string
	Seed       int64
	deadline   time.Time
	capped     bool
	maxViol    int
	perClass   map[string]int
	caseIdx    int64
	known      []knownEntry
}

// Start reads the driver's environment. prop is the property the harness
// decides (VERIF_PROP overrides nothing; it is only cross-checked).
func Start(prop string) *Run {
	r := &Run{start: time.Now(), distinct: map[[8]byte]struct{}{}, perClass: map[string]int{}}
	r.Property = prop
	r.Tier = os.Getenv("VERIF_TIER")
	if r.Tier == "" {
		r.Tier = "quick"
	}
	r.NShards = 1
	if s := os.Getenv("VERIF_SHARD"); s != "" {
		parts := strings.Split(s, "/")
		if len(parts) == 2 {
			r.Shard, _ = strconv.Atoi(parts[0])
			r.NShards, _ = strconv.Atoi(parts[1])
		}
	}
	if r.NShards < 1 {
		r.NShards = 1
	}
	r.Seed, _ = strconv.ParseInt(os.Getenv("VERIF_SEED"), 10, 64)
	r.out = os.Getenv("VERIF_OUT")
	r.replayPath = os.Getenv("VERIF_REPLAY")
	r.ClassCounts = map[string]int64{}
	r.Extra = map[string]interface{}{}
	r.Counters = map[string]int64{}
	r.maxViol = 40
	r.Known = map[string]*KnownHit{}
	if p := os.Getenv("VERIF_KNOWN"); p != "" {
		if data, err := ioutil.ReadFile(p); err == nil {
			var all struct {
				Findings []knownEntry `json:"findings"`
			}
			if err := json.Unmarshal(data, &all); err != nil {
				panic("verifrt: bad known findings file: " + err.Error())
			}
			for _, e := range all.Findings {
				if e.Property != prop || e.Status != "known" {
					continue
				}
				e.re = regexp.MustCompile("^(?:" + e.KeyRE + ")$")
				r.known = append(r.known, e)
			}
		}
	}
	if d := os.Getenv("VERIF_BUDGET_S"); d != "" {
		if f, err := strconv.ParseFloat(d, 64); err == nil && f > 0 {
			r.deadline = r.start.Add(time.Duration(f * float64(time.Second)))
		}
	}
	return r
}

// Thorough reports whether the thorough tier was requested.
func (r *Run) Thorough() bool { return r.Tier == "thorough" }

// Replaying reports whether a single recorded case is to be replayed; if so
// the case is decoded into v.
func (r *Run) Replaying(v interface{}) bool {
	if r.replayPath == "" {
		return false
	}
	data, err := ioutil.ReadFile(r.replayPath)
	if err != nil {
		panic("verifrt: cannot read replay file: " + err.Error())
	}
	var wrap struct {
		Replay json.RawMessage `json:"replay"`
	}
	if err := json.Unmarshal(data, &wrap); err != nil {
		panic("verifrt: bad replay file: " + err.Error())
	}
	if err := json.Unmarshal(wrap.Replay, v); err != nil {
		panic("verifrt: bad replay payload: " + err.Error())
	}
	return true
}

// Mine implements static round-robin sharding over a deterministic
// enumeration: the i-th top-level work item belongs to shard i mod n.
func (r *Run) Mine(i int) bool {
	if r.replayPath != "" {
		return true
	}
	return (i+int(r.Seed))%r.NShards == r.Shard
}

// OutOfBudget reports whether the (optional) internal time budget is used up.
// A harness that stops early because of it must Finish(false, ...).
func (r *Run) OutOfBudget() bool {
	if r.deadline.IsZero() {
		return false
	}
	if time.Now().After(r.deadline) {
		r.capped = true
		return true
	}
	return false
}

// Capped reports whether OutOfBudget ever returned true.
func (r *Run) Capped() bool { return r.capped }

// Case counts one evaluated case (execution of real code + oracle).
func (r *Run) Case() { r.Evaluations++ }

// Count adds to a named counter (reported in evidence as extra keys).
func (r *Run) Count(name string, n int64) { r.Counters[name] += n }

// Distinct records the key of a non-trivial case/outcome; duplicates collapse.
func (r *Run) Distinct(key string) {
	h := sha1.Sum([]byte(key))
	var k [8]byte
	copy(k[:], h[:8])
	r.distinct[k] = struct{}{}
}

// DistinctBytes is Distinct for a byte key.
func (r *Run) DistinctBytes(key []byte) {
	h := sha1.Sum(key)
	var k [8]byte
	copy(k[:], h[:8])
	r.distinct[k] = struct{}{}
}

// Sample keeps up to 6 written-out cases, spread over the enumeration.
func (r *Run) Sample(v interface{}) {
	r.caseIdx++
	n := r.caseIdx
	// keep cases number 1, 10, 100, ... so samples are spread out
	if len(r.Samples) < 6 && (n == 1 || n == 7 || n == 50 || n == 400 || n == 3000 || n == 20000) {
		r.Samples = append(r.Samples, v)
	}
}

// ForceSample always keeps v (bounded to 12 samples).
func (r *Run) ForceSample(v interface{}) {
	if len(r.Samples) < 12 {
		r.Samples = append(r.Samples, v)
	}
}

// Violate records a violation. key must identify the failing input/history in
// a way that is stable across runs (used for known-finding matching); replay
// must be enough for the harness to re-run exactly this case.
func (r *Run) Violate(class, key, desc string, replay interface{}) {
	for i := range r.known {
		e := &r.known[i]
		if (e.Class == "" || e.Class == class) && e.re.MatchString(key) {
			h := r.Known[e.ID]
			if h == nil {
				h = &KnownHit{Witness: &Violation{Property: r.Property, Class: class, Key: key, Desc: desc, Replay: replay}}
				r.Known[e.ID] = h
			}
			h.Count++
			return
		}
	}
	r.NViolations++
	r.ClassCounts[class]++
	if r.perClass[class] >= 8 || len(r.Violations) >= r.maxViol {
		return
	}
	r.perClass[class]++
	r.Violations = append(r.Violations, Violation{Property: r.Property, Class: class, Key: key, Desc: desc, Replay: replay})
}

// Note adds a free-text note to the evidence.
func (r *Run) Note(format string, args ...interface{}) {
	if len(r.Notes) < 40 {
		r.Notes = append(r.Notes, fmt.Sprintf(format, args...))
	}
}

// Finish writes the result file. exhaustive must be true only when the whole
// stated space of this shard was enumerated.
func (r *Run) Finish(exhaustive bool, bound, rule string) {
	r.Exhaustive = exhaustive && !r.capped
	r.Bound = bound
	r.Rule = rule
	r.Done = true
	r.WallS = time.Since(r.start).Seconds()
	r.DistinctKeys = r.DistinctKeys[:0]
	r.DistinctCount = int64(len(r.distinct))
	for k := range r.distinct {
		if len(r.distinct) > 50000 {
			break
		}
		r.DistinctKeys = append(r.DistinctKeys, hex.EncodeToString(k[:]))
	}
	sort.Strings(r.DistinctKeys)
	data, err := json.Marshal(&r.Result)
	if err != nil {
		panic("verifrt: cannot marshal result: " + err.Error())
	}
	if r.out == "" {
		// stand-alone run: summary on stdout
		fmt.Printf("verifrt: %s tier=%s shard=%d/%d evaluations=%d states=%d transitions=%d distinct=%d violations=%d exhaustive=%v bound=%q wall=%.1fs\n",
			r.Property, r.Tier, r.Shard, r.NShards, r.Evaluations, r.States, r.Transitions, r.DistinctCount, r.NViolations, r.Exhaustive, bound, r.WallS)
		for _, v := range r.Violations {
			fmt.Printf("  violation class=%s key=%s: %s\n", v.Class, v.Key, v.Desc)
		}
		return
	}
	if err := ioutil.WriteFile(r.out+".tmp", data, 0644); err != nil {
		panic("verifrt: cannot write result: " + err.Error())
	}
	if err := os.Rename(r.out+".tmp", r.out); err != nil {
		panic("verifrt: cannot write result: " + err.Error())
	}
}

// Hash returns a short hex digest used for violation keys.
func Hash(b []byte) string {
	h := sha1.Sum(b)
	return hex.EncodeToString(h[:10])
}

// JSONKey returns a canonical string form of v (for keys).
func JSONKey(v interface{}) string {
	b, _ := json.Marshal(v)
	return string(b)
}
