//go:build verif
// +build verif

package verifrt

import (
	"fmt"
	"strings"
)

// E1 — deviation-bounded choice-tree explorer.
//
// The body asks Choose(label, n) and gets an answer in [0,n). Answer 0 is the
// default; any other answer costs one deviation. Explore runs the body for
// every choice vector whose number of non-default answers is <= bound (or for
// the full product when bound < 0). Executions always run to completion. A
// body that asks a different question while a prefix is being replayed is
// uncaptured nondeterminism and aborts loudly.

type ChoicePoint struct {
	Label string `json:"l"`
	N     int    `json:"n"`
	V     int    `json:"v"`
}

type Chooser struct {
	prefix []ChoicePoint // forced answers (replay)
	points []ChoicePoint // what was asked in this execution
	fixed  bool          // replaying a recorded trace (no exploration)
}

// Choose returns the answer for this point.
func (c *Chooser) Choose(label string, n int) int {
	if n <= 0 {
		panic("verifrt.Choose: empty domain at " + label)
	}
	i := len(c.points)
	v := 0
	if i < len(c.prefix) {
		p := c.prefix[i]
		if p.Label != label || (p.N != n && !c.fixed) {
			panic(fmt.Sprintf("verifrt: nondeterministic body: replay expected %s/%d, body asked %s/%d at point %d", p.Label, p.N, label, n, i))
		}
		v = p.V
		if v < 0 || v >= n {
			panic(fmt.Sprintf("verifrt: replayed choice %d out of range at %s/%d", v, label, n))
		}
	}
	c.points = append(c.points, ChoicePoint{label, n, v})
	return v
}

// Trace returns the labelled choices of the current execution.
func (c *Chooser) Trace() []ChoicePoint {
	out := make([]ChoicePoint, len(c.points))
	copy(out, c.points)
	return out
}

// TraceString renders only the deviations (plus total points) for humans.
func (c *Chooser) TraceString() string {
	var sb strings.Builder
	for _, p := range c.points {
		if p.V != 0 {
			fmt.Fprintf(&sb, "%s=%d ", p.Label, p.V)
		}
	}
	if sb.Len() == 0 {
		return "(all defaults)"
	}
	return strings.TrimSpace(sb.String())
}

// Deviations counts non-default answers in the current execution.
func (c *Chooser) Deviations() int {
	n := 0
	for _, p := range c.points {
		if p.V != 0 {
			n++
		}
	}
	return n
}

// Explore enumerates all executions of body with at most bound deviations
// (bound < 0: unbounded = full product). mine selects top-level subtrees for
// sharding: the i-th execution *root alternative* (index over first-level
// expansions) is run iff mine(i). stop may end the enumeration early.
// It returns the number of executions run.
func Explore(bound int, mine func(i int) bool, stop func() bool, body func(c *Chooser)) int64 {
	var runs int64
	var top int
	var rec func(prefix []ChoicePoint, dev int, depth int)
	stopped := false
	rec = func(prefix []ChoicePoint, dev int, depth int) {
		if stopped {
			return
		}
		if stop != nil && stop() {
			stopped = true
			return
		}
		c := &Chooser{prefix: prefix}
		body(c)
		runs++
		pts := c.points
		for i := len(prefix); i < len(pts); i++ {
			if bound >= 0 && dev+1 > bound {
				break
			}
			for alt := 1; alt < pts[i].N; alt++ {
				np := make([]ChoicePoint, i+1)
				copy(np, pts[:i])
				np[i] = ChoicePoint{pts[i].Label, pts[i].N, alt}
				if depth == 0 {
					top++
					if mine != nil && !mine(top) {
						continue
					}
				}
				rec(np, dev+1, depth+1)
				if stopped {
					return
				}
			}
		}
	}
	// the all-default execution belongs to shard chosen by mine(0)
	if mine == nil || mine(0) {
		rec(nil, 0, 0)
	} else {
		// still need the default execution to discover the first-level
		// alternatives, but it is not counted/checked by this shard: run
		// it through a body wrapper that the caller can detect via Dry.
		c := &Chooser{}
		dry = true
		body(c)
		dry = false
		pts := c.points
		for i := 0; i < len(pts); i++ {
			if bound >= 0 && 1 > bound {
				break
			}
			for alt := 1; alt < pts[i].N; alt++ {
				np := make([]ChoicePoint, i+1)
				copy(np, pts[:i])
				np[i] = ChoicePoint{pts[i].Label, pts[i].N, alt}
				top++
				if !mine(top) {
					continue
				}
				rec(np, 1, 1)
				if stopped {
					return runs
				}
			}
		}
	}
	return runs
}

var dry bool

// Dry reports whether the current execution only serves to discover choice
// points for sharding (the harness must not count it or record violations).
func Dry() bool { return dry }

// ReplayTrace runs body once with exactly the recorded answers.
func ReplayTrace(trace []ChoicePoint, body func(c *Chooser)) {
	c := &Chooser{prefix: trace, fixed: true}
	body(c)
}

// Product enumerates the full cartesian product of the given domain sizes in
// lexicographic order, calling f with the index vector (reused between calls).
func Product(dims []int, f func(idx []int) bool) {
	idx := make([]int, len(dims))
	for _, d := range dims {
		if d <= 0 {
			return
		}
	}
	for {
		if !f(idx) {
			return
		}
		k := len(dims) - 1
		for k >= 0 {
			idx[k]++
			if idx[k] < dims[k] {
				break
			}
			idx[k] = 0
			k--
		}
		if k < 0 {
			return
		}
	}
}

// Permutations calls f with every permutation of 0..n-1 (Heap's algorithm is
// avoided so the order is lexicographic and stable).
func Permutations(n int, f func(p []int) bool) {
	p := make([]int, n)
	used := make([]bool, n)
	var rec func(k int) bool
	rec = func(k int) bool {
		if k == n {
			return f(p)
		}
		for i := 0; i < n; i++ {
			if used[i] {
				continue
			}
			used[i] = true
			p[k] = i
			if !rec(k + 1) {
				return false
			}
			used[i] = false
		}
		return true
	}
	rec(0)
}
