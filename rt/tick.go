//go:build verif
// +build verif

package verifrt

import "fmt"

// Deterministic step / recursion-depth accounting for code instrumented by
// tools/instr-tick. A harness calls SetBudget before a case; exceeding a
// budget panics with *BudgetExceeded (recoverable, attributable, replayable).

type BudgetExceeded struct {
	Kind  string // "steps" | "depth"
	Steps int64
	Depth int
}

func (b *BudgetExceeded) Error() string {
	return fmt.Sprintf("%s budget exceeded (steps=%d depth=%d)", b.Kind, b.Steps, b.Depth)
}

var (
	tickSteps, tickMaxSteps int64
	tickDepth, tickMaxDepth int
	tickPeakDepth           int
)

// SetBudget resets the counters and sets the budgets (0 = unlimited).
func SetBudget(maxSteps int64, maxDepth int) {
	tickSteps, tickDepth, tickPeakDepth = 0, 0, 0
	tickMaxSteps, tickMaxDepth = maxSteps, maxDepth
}

// Steps / PeakDepth report what the last case used.
func Steps() int64   { return tickSteps }
func PeakDepth() int { return tickPeakDepth }

func Tick() {
	tickSteps++
	if tickMaxSteps > 0 && tickSteps > tickMaxSteps {
		tickMaxSteps = 0 // report once
		panic(&BudgetExceeded{"steps", tickSteps, tickDepth})
	}
}

func Enter() {
	tickSteps++
	tickDepth++
	if tickDepth > tickPeakDepth {
		tickPeakDepth = tickDepth
	}
	if tickMaxDepth > 0 && tickDepth > tickMaxDepth {
		tickMaxDepth = 0
		panic(&BudgetExceeded{"depth", tickSteps, tickDepth})
	}
	if tickMaxSteps > 0 && tickSteps > tickMaxSteps {
		tickMaxSteps = 0
		panic(&BudgetExceeded{"steps", tickSteps, tickDepth})
	}
}

func Leave() { tickDepth-- }
