//go:build verif
// +build verif

package verifrt

import "crypto/sha256"

// E2 — explicit-state breadth-first search over the reachable states of a
// real data structure. The harness supplies snapshots (opaque values it can
// restore into the real object), a canonical key, and a successor function
// that restores the snapshot, applies each operation of the alphabet to the
// real code, checks its oracle and emits the successor snapshot.

type node struct {
	parent int32
	op     string
	depth  int32
}

// Graph is one BFS instance.
type Graph struct {
	Key      func(s interface{}) string
	Succ     func(g *Graph, id int, s interface{}, emit func(op string, next interface{}))
	MaxDepth int // <0: to a fixed point
	Stop     func() bool
	KeepPath bool

	States      int64
	Transitions int64
	Depth       int
	Complete    bool // frontier exhausted (fixed point) rather than depth-capped/stopped
	DepthCapped bool

	seen  map[string]int32
	nodes []node
}

// compact bounds the memory of the visited set: long canonical keys are stored as a 128-bit digest (a collision would
// merge two states silently; with 2^-128 per pair that is not a practical concern, and it can only lose states, never
// raise an alarm).
func compact(k string) string {
	if len(k) <= 32 {
		return k
	}
	d := sha256.Sum256([]byte(k))
	return string(d[:16])
}

// Path returns the operation list leading to state id (needs KeepPath).
func (g *Graph) Path(id int) []string {
	var rev []string
	for id > 0 && id < len(g.nodes) {
		n := g.nodes[id]
		if n.parent < 0 {
			break
		}
		rev = append(rev, n.op)
		id = int(n.parent)
	}
	out := make([]string, len(rev))
	for i := range rev {
		out[i] = rev[len(rev)-1-i]
	}
	return out
}

// Run explores from the initial snapshots.
func (g *Graph) Run(inits []interface{}) {
	g.seen = map[string]int32{}
	g.nodes = g.nodes[:0]
	g.nodes = append(g.nodes, node{parent: -1}) // id 0 unused sentinel
	type item struct {
		id int
		s  interface{}
	}
	var frontier []item
	for _, s := range inits {
		k := compact(g.Key(s))
		if _, ok := g.seen[k]; ok {
			continue
		}
		id := len(g.nodes)
		g.nodes = append(g.nodes, node{parent: -1, depth: 0})
		g.seen[k] = int32(id)
		frontier = append(frontier, item{id, s})
		g.States++
	}
	g.Complete = true
	depth := 0
	for len(frontier) > 0 {
		if g.MaxDepth >= 0 && depth >= g.MaxDepth {
			g.Complete = false
			g.DepthCapped = true
			break
		}
		var next []item
		for _, it := range frontier {
			if g.Stop != nil && g.Stop() {
				g.Complete = false
				g.Depth = depth
				return
			}
			cur := it
			g.Succ(g, cur.id, cur.s, func(op string, ns interface{}) {
				g.Transitions++
				k := compact(g.Key(ns))
				if _, ok := g.seen[k]; ok {
					return
				}
				id := len(g.nodes)
				n := node{parent: int32(cur.id), depth: int32(depth + 1)}
				if g.KeepPath {
					n.op = op
				}
				g.nodes = append(g.nodes, n)
				g.seen[k] = int32(id)
				g.States++
				next = append(next, item{id, ns})
			})
		}
		frontier = next
		depth++
		if len(frontier) > 0 {
			g.Depth = depth
		}
	}
}
