module verif/tools/instr-maprange

go 1.21
