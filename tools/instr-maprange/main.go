// instr-maprange: source instrumenter (c) of DESIGN.md §2.3.
//
// usage: instr-maprange -dir <package dir> [-src name.go=path ...] in.go out.go
//
// Type-checks the package in -dir (with the given file contents substituted)
// and rewrites every `for k[, v] := range <map-typed expr>` of in.go into an
// iteration over verifPermMap(m): keys sorted canonically, then permuted by the
// choice the explorer makes. Go's randomised map iteration thereby becomes an
// enumerated choice. A file without any map-typed range is copied unchanged
// (count 0 is reported): the table order then cannot depend on map iteration.
package main

import (
	"flag"
	"fmt"
	"go/ast"
	"go/build"
	"go/format"
	"go/importer"
	"go/parser"
	"go/token"
	"go/types"
	"os"
	"path/filepath"
	"strings"
)

type srcFlag map[string]string

func (s srcFlag) String() string { return "" }
func (s srcFlag) Set(v string) error {
	i := strings.Index(v, "=")
	if i < 0 {
		return fmt.Errorf("want name=path")
	}
	s[v[:i]] = v[i+1:]
	return nil
}

func fail(f string, a ...interface{}) {
	fmt.Fprintf(os.Stderr, "instr-maprange: "+f+"\n", a...)
	os.Exit(1)
}

func main() {
	dir := flag.String("dir", "", "package directory")
	subst := srcFlag{}
	flag.Var(subst, "src", "name.go=path: use path as the content of name.go")
	flag.Parse()
	if flag.NArg() != 2 || *dir == "" {
		fail("usage: instr-maprange -dir DIR in.go out.go")
	}
	target := filepath.Base(flag.Arg(0))
	if _, ok := subst[target]; !ok {
		subst[target] = flag.Arg(0)
	}
	bp, err := build.Default.ImportDir(*dir, 0)
	if err != nil {
		fail("cannot list package: %v", err)
	}
	fset := token.NewFileSet()
	var files []*ast.File
	var tf *ast.File
	for _, name := range bp.GoFiles {
		path := filepath.Join(*dir, name)
		if p, ok := subst[name]; ok {
			path = p
		}
		src, err := os.ReadFile(path)
		if err != nil {
			fail("%v", err)
		}
		f, err := parser.ParseFile(fset, filepath.Join(*dir, name), src, parser.ParseComments)
		if err != nil {
			fail("%v", err)
		}
		files = append(files, f)
		if name == target {
			tf = f
		}
	}
	if tf == nil {
		fail("cannot bind to code: %s is not part of the package in %s", target, *dir)
	}
	info := &types.Info{Types: map[ast.Expr]types.TypeAndValue{}}
	nerr := 0
	conf := types.Config{Importer: importer.ForCompiler(fset, "source", nil), Error: func(err error) { nerr++; fmt.Fprintln(os.Stderr, "instr-maprange: type error:", err) }}
	conf.Check(bp.ImportPath, fset, files, info)
	if nerr > 0 {
		fail("cannot bind to code: the package does not type-check")
	}
	qual := func(p *types.Package) string {
		// name under which the package is imported in the target file
		for _, im := range tf.Imports {
			path := strings.Trim(im.Path.Value, `"`)
			if path == p.Path() {
				if im.Name != nil {
					return im.Name.Name
				}
				return p.Name()
			}
		}
		if p.Path() == bp.ImportPath || p.Name() == tf.Name.Name {
			return ""
		}
		fail("cannot express type from package %s in %s (not imported there)", p.Path(), target)
		return ""
	}
	count := 0
	ast.Inspect(tf, func(n ast.Node) bool {
		rs, ok := n.(*ast.RangeStmt)
		if !ok {
			return true
		}
		tv, ok := info.Types[rs.X]
		if !ok {
			return true
		}
		mt, ok := tv.Type.Underlying().(*types.Map)
		if !ok {
			return true
		}
		if rs.Tok != token.DEFINE && (rs.Key != nil || rs.Value != nil) {
			fail("cannot bind to code: map range with '=' assignment at %s is not supported", fset.Position(rs.Pos()))
		}
		var pre []ast.Stmt
		mkAssign := func(v ast.Expr, field string, t types.Type) {
			id, ok := v.(*ast.Ident)
			if !ok || id.Name == "_" {
				return
			}
			texpr, err := parser.ParseExpr(types.TypeString(t, qual))
			if err != nil {
				fail("cannot express type %s: %v", t, err)
			}
			pre = append(pre, &ast.AssignStmt{
				Lhs: []ast.Expr{ast.NewIdent(id.Name)}, Tok: token.DEFINE,
				Rhs: []ast.Expr{&ast.TypeAssertExpr{X: &ast.SelectorExpr{X: ast.NewIdent("verifKV"), Sel: ast.NewIdent(field)}, Type: texpr}},
			})
			pre = append(pre, &ast.AssignStmt{Lhs: []ast.Expr{ast.NewIdent("_")}, Tok: token.ASSIGN, Rhs: []ast.Expr{ast.NewIdent(id.Name)}})
		}
		if rs.Key != nil {
			mkAssign(rs.Key, "Key", mt.Key())
		}
		if rs.Value != nil {
			mkAssign(rs.Value, "Val", mt.Elem())
		}
		rs.X = &ast.CallExpr{Fun: ast.NewIdent("verifPermMap"), Args: []ast.Expr{rs.X}}
		rs.Key = ast.NewIdent("_")
		rs.Value = ast.NewIdent("verifKV")
		rs.Tok = token.DEFINE
		rs.Body.List = append(pre, rs.Body.List...)
		count++
		return true
	})
	out, err := os.Create(flag.Arg(1))
	if err != nil {
		fail("%v", err)
	}
	defer out.Close()
	if err := format.Node(out, fset, tf); err != nil {
		fail("%v", err)
	}
	fmt.Printf("instr-maprange: %d map-typed range statements rewritten in %s\n", count, target)
}
