module verif/tools/instr-tick

go 1.21
