// instr-tick: source instrumenter (a) of DESIGN.md §2.3.
//
// usage: instr-tick [-depth] [-pkg importpath] in.go out.go
//
// Inserts verifrt.Tick() at the start of every loop body and, with -depth,
// verifrt.Enter() / defer verifrt.Leave() at every function entry. This gives
// a deterministic step count and recursion depth per harness case, so "does
// not terminate" and "overflows the stack" become replayable oracle failures
// (a panic carrying *verifrt.BudgetExceeded) instead of a hang or a fatal
// runtime error. Instrumentation is by shape (every function, every loop).
package main

import (
	"flag"
	"fmt"
	"go/ast"
	"go/format"
	"go/parser"
	"go/token"
	"os"
)

func call(name string) *ast.ExprStmt {
	return &ast.ExprStmt{X: &ast.CallExpr{Fun: &ast.SelectorExpr{X: ast.NewIdent("verifrtTick"), Sel: ast.NewIdent(name)}}}
}

func main() {
	depth := flag.Bool("depth", false, "also track recursion depth")
	pkg := flag.String("pkg", "github.com/ProjectSerenity/firefly/kernel/internal/verifrt", "import path of the runtime")
	flag.Parse()
	if flag.NArg() != 2 {
		fmt.Fprintln(os.Stderr, "usage: instr-tick [-depth] in.go out.go")
		os.Exit(1)
	}
	fset := token.NewFileSet()
	f, err := parser.ParseFile(fset, flag.Arg(0), nil, parser.ParseComments)
	if err != nil {
		fmt.Fprintln(os.Stderr, "instr-tick:", err)
		os.Exit(1)
	}
	loops, funcs := 0, 0
	ast.Inspect(f, func(n ast.Node) bool {
		switch x := n.(type) {
		case *ast.ForStmt:
			x.Body.List = append([]ast.Stmt{call("Tick")}, x.Body.List...)
			loops++
		case *ast.RangeStmt:
			x.Body.List = append([]ast.Stmt{call("Tick")}, x.Body.List...)
			loops++
		case *ast.FuncDecl:
			if *depth && x.Body != nil {
				x.Body.List = append([]ast.Stmt{call("Enter"), &ast.DeferStmt{Call: call("Leave").X.(*ast.CallExpr)}}, x.Body.List...)
				funcs++
			}
		case *ast.FuncLit:
			if *depth {
				x.Body.List = append([]ast.Stmt{call("Enter"), &ast.DeferStmt{Call: call("Leave").X.(*ast.CallExpr)}}, x.Body.List...)
				funcs++
			}
		}
		return true
	})
	if loops+funcs == 0 {
		fmt.Fprintf(os.Stderr, "instr-tick: cannot bind to code: %s contains no loop or function to instrument\n", flag.Arg(0))
		os.Exit(1)
	}
	f.Decls = append([]ast.Decl{&ast.GenDecl{Tok: token.IMPORT, Specs: []ast.Spec{&ast.ImportSpec{Name: ast.NewIdent("verifrtTick"), Path: &ast.BasicLit{Kind: token.STRING, Value: fmt.Sprintf("%q", *pkg)}}}}}, f.Decls...)
	out, err := os.Create(flag.Arg(1))
	if err != nil {
		fmt.Fprintln(os.Stderr, "instr-tick:", err)
		os.Exit(1)
	}
	defer out.Close()
	if err := format.Node(out, fset, f); err != nil {
		fmt.Fprintln(os.Stderr, "instr-tick:", err)
		os.Exit(1)
	}
	fmt.Printf("instr-tick: %d loops, %d functions\n", loops, funcs)
}
