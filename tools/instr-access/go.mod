module verif/tools/instr-access

go 1.21
