// instr-access: source instrumenter (b) of DESIGN.md §2.3.
//
// usage: instr-access -type T -methods A,B,C -require A,B in.go out.go
//
// In the named methods of type T it inserts, before every statement,
// verifsched.FieldAccess("<field>", isWrite) for every receiver field that is
// *assigned anywhere in those methods* (computed, not listed). Fields that are
// never assigned there (immutable after init) are deliberately not hooked.
// Instrumentation is by shape, so an edited file is still instrumented; if a
// required method is missing the tool fails ("cannot bind to code").
package main

import (
	"flag"
	"fmt"
	"go/ast"
	"go/format"
	"go/parser"
	"go/token"
	"os"
	"sort"
	"strings"
)

const hookPkgPath = "github.com/ProjectSerenity/firefly/kernel/internal/verifsched"

func fail(format string, a ...interface{}) {
	fmt.Fprintf(os.Stderr, "instr-access: "+format+"\n", a...)
	os.Exit(1)
}

// aliases maps local identifiers that hold the ADDRESS of receiver memory (pool := &alloc.pools[i]) to the field they
// point into; an access through such a pointer is an access to the receiver's state. Filled per function by
// collectAliases, consulted by leafField.
var aliases = map[string]string{}

func collectAliases(body *ast.BlockStmt, recv string) {
	aliases = map[string]string{}
	for changed := true; changed; { // to a fixed point: q := &p.next is an alias if p is
		changed = false
		ast.Inspect(body, func(n ast.Node) bool {
			as, ok := n.(*ast.AssignStmt)
			if !ok || len(as.Lhs) != len(as.Rhs) {
				return true
			}
			for i, r := range as.Rhs {
				id, ok := as.Lhs[i].(*ast.Ident)
				if !ok || id.Name == "_" || id.Name == recv {
					continue
				}
				u, ok := r.(*ast.UnaryExpr)
				if !ok || u.Op != token.AND {
					continue
				}
				if f := leafField(u.X, recv); f != "" && aliases[id.Name] != f {
					aliases[id.Name] = f
					changed = true
				}
			}
			return true
		})
	}
}

// leafField returns the last field selected on a chain rooted at the receiver
// identifier or at a local pointer into the receiver's state (index expressions
// are looked through), or "".
func leafField(e ast.Expr, recv string) string {
	last := ""
	for {
		switch x := e.(type) {
		case *ast.SelectorExpr:
			if last == "" {
				last = x.Sel.Name
			}
			e = x.X
		case *ast.IndexExpr:
			e = x.X
		case *ast.ParenExpr:
			e = x.X
		case *ast.StarExpr:
			e = x.X
		case *ast.SliceExpr:
			e = x.X
		case *ast.Ident:
			if x.Name == recv {
				return last
			}
			if _, ok := aliases[x.Name]; ok {
				return last // a field reached through the pointer; the bare pointer variable itself is a local
			}
			return ""
		default:
			return ""
		}
	}
}

type instr struct {
	recv    string
	mutable map[string]bool
	count   int
}

// fieldsIn collects hooked fields mentioned anywhere inside n.
func (in *instr) fieldsIn(n ast.Node, into map[string]bool) {
	if n == nil {
		return
	}
	ast.Inspect(n, func(x ast.Node) bool {
		if fl, ok := x.(*ast.FuncLit); ok && fl != nil {
			return false
		}
		if e, ok := x.(ast.Expr); ok {
			if f := leafField(e, in.recv); f != "" && in.mutable[f] {
				into[f] = true
			}
		}
		return true
	})
}

func (in *instr) hooks(reads, writes map[string]bool) []ast.Stmt {
	var names []string
	for f := range reads {
		if !writes[f] {
			names = append(names, f)
		}
	}
	sort.Strings(names)
	var out []ast.Stmt
	mk := func(f string, w bool) ast.Stmt {
		in.count++
		wv := "false"
		if w {
			wv = "true"
		}
		return &ast.ExprStmt{X: &ast.CallExpr{
			Fun:  &ast.SelectorExpr{X: ast.NewIdent("verifsched"), Sel: ast.NewIdent("FieldAccess")},
			Args: []ast.Expr{&ast.BasicLit{Kind: token.STRING, Value: fmt.Sprintf("%q", f)}, ast.NewIdent(wv)},
		}}
	}
	for _, f := range names {
		out = append(out, mk(f, false))
	}
	names = names[:0]
	for f := range writes {
		names = append(names, f)
	}
	sort.Strings(names)
	for _, f := range names {
		out = append(out, mk(f, true))
	}
	return out
}

// headerAccess computes the accesses made by the part of s that is evaluated
// when control reaches s (not its nested bodies).
func (in *instr) headerAccess(s ast.Stmt) (reads, writes map[string]bool) {
	reads, writes = map[string]bool{}, map[string]bool{}
	switch x := s.(type) {
	case *ast.AssignStmt:
		for _, l := range x.Lhs {
			if f := leafField(l, in.recv); f != "" && in.mutable[f] {
				writes[f] = true
				// index expressions inside the LHS are reads
				if ix, ok := l.(*ast.IndexExpr); ok {
					in.fieldsIn(ix.Index, reads)
				}
			} else {
				in.fieldsIn(l, reads)
			}
		}
		for _, r := range x.Rhs {
			in.fieldsIn(r, reads)
		}
	case *ast.IncDecStmt:
		if f := leafField(x.X, in.recv); f != "" && in.mutable[f] {
			writes[f] = true
		} else {
			in.fieldsIn(x.X, reads)
		}
	case *ast.IfStmt:
		in.fieldsIn(x.Init, reads)
		in.fieldsIn(x.Cond, reads)
		// else-if conditions are evaluated without intervening statements of this chain
		for e := x.Else; e != nil; {
			if ei, ok := e.(*ast.IfStmt); ok {
				in.fieldsIn(ei.Init, reads)
				in.fieldsIn(ei.Cond, reads)
				e = ei.Else
			} else {
				break
			}
		}
	case *ast.ForStmt:
		in.fieldsIn(x.Init, reads)
		in.fieldsIn(x.Cond, reads)
	case *ast.RangeStmt:
		in.fieldsIn(x.X, reads)
	case *ast.SwitchStmt:
		in.fieldsIn(x.Init, reads)
		in.fieldsIn(x.Tag, reads)
		for _, c := range x.Body.List {
			for _, e := range c.(*ast.CaseClause).List {
				in.fieldsIn(e, reads)
			}
		}
	case *ast.BlockStmt, *ast.LabeledStmt:
	default:
		in.fieldsIn(s, reads)
	}
	return
}

func (in *instr) block(list []ast.Stmt) []ast.Stmt {
	var out []ast.Stmt
	for _, s := range list {
		r, w := in.headerAccess(s)
		out = append(out, in.hooks(r, w)...)
		in.nested(s)
		out = append(out, s)
	}
	return out
}

// loopHead returns hooks for what a loop re-evaluates on every iteration.
func (in *instr) loopHead(s ast.Stmt) []ast.Stmt {
	reads := map[string]bool{}
	switch x := s.(type) {
	case *ast.ForStmt:
		in.fieldsIn(x.Cond, reads)
		in.fieldsIn(x.Post, reads)
	case *ast.RangeStmt:
		in.fieldsIn(x.X, reads) // element values are fetched per iteration
	}
	return in.hooks(reads, map[string]bool{})
}

func (in *instr) nested(s ast.Stmt) {
	switch x := s.(type) {
	case *ast.BlockStmt:
		x.List = in.block(x.List)
	case *ast.LabeledStmt:
		in.nested(x.Stmt)
	case *ast.IfStmt:
		x.Body.List = in.block(x.Body.List)
		if x.Else != nil {
			in.nested(x.Else)
		}
	case *ast.ForStmt:
		x.Body.List = append(in.loopHead(x), in.block(x.Body.List)...)
	case *ast.RangeStmt:
		x.Body.List = append(in.loopHead(x), in.block(x.Body.List)...)
	case *ast.SwitchStmt:
		for _, c := range x.Body.List {
			cc := c.(*ast.CaseClause)
			cc.Body = in.block(cc.Body)
		}
	case *ast.TypeSwitchStmt:
		for _, c := range x.Body.List {
			cc := c.(*ast.CaseClause)
			cc.Body = in.block(cc.Body)
		}
	}
}

func main() {
	typ := flag.String("type", "", "receiver type")
	methods := flag.String("methods", "", "comma separated methods to instrument")
	require := flag.String("require", "", "comma separated methods that must exist")
	flag.Parse()
	if flag.NArg() != 2 {
		fail("usage: instr-access -type T -methods A,B in.go out.go")
	}
	fset := token.NewFileSet()
	f, err := parser.ParseFile(fset, flag.Arg(0), nil, parser.ParseComments)
	if err != nil {
		fail("%v", err)
	}
	want := map[string]bool{}
	for _, m := range strings.Split(*methods, ",") {
		want[m] = true
	}
	var targets []*ast.FuncDecl
	found := map[string]bool{}
	for _, d := range f.Decls {
		fd, ok := d.(*ast.FuncDecl)
		if !ok || fd.Recv == nil || len(fd.Recv.List) != 1 || fd.Body == nil || !want[fd.Name.Name] {
			continue
		}
		t := fd.Recv.List[0].Type
		if st, ok := t.(*ast.StarExpr); ok {
			t = st.X
		}
		if id, ok := t.(*ast.Ident); !ok || id.Name != *typ {
			continue
		}
		if len(fd.Recv.List[0].Names) != 1 {
			continue
		}
		targets = append(targets, fd)
		found[fd.Name.Name] = true
	}
	for _, m := range strings.Split(*require, ",") {
		if m != "" && !found[m] {
			fail("cannot bind to code: method %s.%s not found in %s", *typ, m, flag.Arg(0))
		}
	}
	// pass 1: the mutable set
	mutable := map[string]bool{}
	for _, fd := range targets {
		recv := fd.Recv.List[0].Names[0].Name
		collectAliases(fd.Body, recv)
		ast.Inspect(fd.Body, func(n ast.Node) bool {
			switch x := n.(type) {
			case *ast.AssignStmt:
				for _, l := range x.Lhs {
					if fl := leafField(l, recv); fl != "" {
						mutable[fl] = true
					}
				}
			case *ast.IncDecStmt:
				if fl := leafField(x.X, recv); fl != "" {
					mutable[fl] = true
				}
			}
			return true
		})
	}
	total := 0
	for _, fd := range targets {
		in := &instr{recv: fd.Recv.List[0].Names[0].Name, mutable: mutable}
		collectAliases(fd.Body, in.recv)
		fd.Body.List = in.block(fd.Body.List)
		total += in.count
	}
	if total == 0 {
		fail("cannot bind to code: nothing to instrument in %s (no receiver field is assigned in %s)", flag.Arg(0), *methods)
	}
	// import
	f.Decls = append([]ast.Decl{&ast.GenDecl{Tok: token.IMPORT, Specs: []ast.Spec{&ast.ImportSpec{Name: ast.NewIdent("verifsched"), Path: &ast.BasicLit{Kind: token.STRING, Value: fmt.Sprintf("%q", hookPkgPath)}}}}}, f.Decls...)
	out, err := os.Create(flag.Arg(1))
	if err != nil {
		fail("%v", err)
	}
	defer out.Close()
	if err := format.Node(out, fset, f); err != nil {
		fail("%v", err)
	}
	var names []string
	for m := range mutable {
		names = append(names, m)
	}
	sort.Strings(names)
	fmt.Printf("instr-access: %d hooks, mutable fields: %s\n", total, strings.Join(names, ","))
}
